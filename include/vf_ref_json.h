/* vf_ref_json.h - independent reference for RFC 8259 string literals (specification side only). */
#ifndef VF_REF_JSON_H
#define VF_REF_JSON_H
enum { REF_INVALID = 0, REF_STRICT = 1, REF_LENIENT = 2 };   /* LENIENT: raw control bytes or \u0000 inside, otherwise fine */

static int ref_hex(unsigned char c) { return (c >= '0' && c <= '9') ? c - '0' : (c >= 'a' && c <= 'f') ? c - 'a' + 10 : (c >= 'A' && c <= 'F') ? c - 'A' + 10 : -1; }
static int ref_hex4(const unsigned char *p, unsigned long *out)
{
    int a = ref_hex(p[0]), b = ref_hex(p[1]), c = ref_hex(p[2]), d = ref_hex(p[3]);
    if (a < 0 || b < 0 || c < 0 || d < 0) return 0;
    *out = ((unsigned long)a << 12) | ((unsigned long)b << 8) | ((unsigned long)c << 4) | (unsigned long)d;
    return 1;
}
static size_t ref_utf8(unsigned long cp, unsigned char *o)
{
    if (cp < 0x80) { o[0] = (unsigned char)cp; return 1; }
    if (cp < 0x800) { o[0] = (unsigned char)(0xC0 | (cp >> 6)); o[1] = (unsigned char)(0x80 | (cp & 0x3F)); return 2; }
    if (cp < 0x10000) { o[0] = (unsigned char)(0xE0 | (cp >> 12)); o[1] = (unsigned char)(0x80 | ((cp >> 6) & 0x3F)); o[2] = (unsigned char)(0x80 | (cp & 0x3F)); return 3; }
    o[0] = (unsigned char)(0xF0 | (cp >> 18)); o[1] = (unsigned char)(0x80 | ((cp >> 12) & 0x3F)); o[2] = (unsigned char)(0x80 | ((cp >> 6) & 0x3F)); o[3] = (unsigned char)(0x80 | (cp & 0x3F)); return 4;
}
/* b[0..n): text starting at the opening quote. out must hold n bytes. */
static int ref_string(const unsigned char *b, size_t n, unsigned char *out, size_t *outlen, size_t *consumed)
{
    size_t i = 1, o = 0; int lenient = 0;
    if (n < 2 || b[0] != '"') return REF_INVALID;
    for (;;) {
        unsigned char c;
        if (i >= n) return REF_INVALID;                     /* unterminated */
        c = b[i];
        if (c == '"') { i++; break; }
        if (c == '\\') {
            unsigned char e;
            if (i + 1 >= n) return REF_INVALID;             /* truncated escape */
            e = b[i + 1];
            if (e == 'b') { out[o++] = '\b'; i += 2; }
            else if (e == 'f') { out[o++] = '\f'; i += 2; }
            else if (e == 'n') { out[o++] = '\n'; i += 2; }
            else if (e == 'r') { out[o++] = '\r'; i += 2; }
            else if (e == 't') { out[o++] = '\t'; i += 2; }
            else if (e == '"' || e == '\\' || e == '/') { out[o++] = e; i += 2; }
            else if (e == 'u') {
                unsigned long cu, lo;
                if (i + 6 > n) return REF_INVALID;
                if (!ref_hex4(b + i + 2, &cu)) return REF_INVALID;
                if (cu >= 0xDC00 && cu <= 0xDFFF) return REF_INVALID;            /* lone low surrogate */
                if (cu >= 0xD800 && cu <= 0xDBFF) {
                    if (i + 12 > n) return REF_INVALID;
                    if (b[i + 6] != '\\' || b[i + 7] != 'u') return REF_INVALID;
                    if (!ref_hex4(b + i + 8, &lo)) return REF_INVALID;
                    if (lo < 0xDC00 || lo > 0xDFFF) return REF_INVALID;
                    cu = 0x10000UL + ((cu - 0xD800UL) << 10) + (lo - 0xDC00UL);
                    i += 12;
                } else i += 6;
                /* the closing quote must still be inside the buffer: checked by the loop head */
                if (cu == 0) lenient = 1;
                o += ref_utf8(cu, out + o);
            }
            else return REF_INVALID;                        /* unknown escape */
        } else {
            if (c < 0x20) lenient = 1;
            out[o++] = c; i++;
        }
    }
    *outlen = o; *consumed = i;
    return lenient ? REF_LENIENT : REF_STRICT;
}
#endif
