/* decode_pointer_inplace on every zero-terminated token of <= L bytes in an exact-size buffer: stays inside the buffer, and for
 * tokens whose '~' are all followed by '0' or '1' (RFC 6901) the result is the unescaped token (~0 -> '~', ~1 -> '/'). */
#ifndef L
#define L 5
#endif
#define VF_INPUTS(X) X(unsigned char, s, [L + 1])
#include "vf.h"
#include "vf_str.h"
#include "cJSON_Utils.c"
int main(VF_MAIN_ARGS)
{
    unsigned char ref[L + 1], orig[L + 1]; unsigned char *buf; size_t i, o = 0; int valid = 1;
    VF_INIT();
    IN.s[L] = 0; memcpy(orig, IN.s, L + 1);
    buf = (unsigned char *)vf_exact(orig, L + 1);
    decode_pointer_inplace(buf);
    for (i = 0; orig[i]; i++) {
        if (orig[i] == '~') { if (orig[i + 1] == '0') { ref[o++] = '~'; i++; } else if (orig[i + 1] == '1') { ref[o++] = '/'; i++; } else { valid = 0; break; } }
        else ref[o++] = orig[i];
    }
    ref[o] = 0;
    if (valid) { VF_AP(16, strcmp((char *)buf, (char *)ref) == 0, "C16 the last path token is unescaped per RFC 6901 (~0 -> ~, ~1 -> /)"); VF_WITNESS("valid"); }
    decode_pointer_inplace(0);
    VF_WITNESS("end");
    free(buf);
    return 0;
}
