/* vf_libc.h - models of the libc functions cJSON's number handling depends on (part of the claim).
 * Include AFTER vf.h and BEFORE #include "cJSON.c"; it redirects strtod / localeconv by macro.
 * CBMC build : strtod is syntax-exact (longest prefix of the C decimal floating grammar with the locale's
 *              decimal point) and value-nondeterministic (IN.strtod_val); localeconv's decimal point is IN.dp.
 * native     : the real functions run; the wrapper only records the argument.
 * The harness's VF_INPUTS must contain: X(double, strtod_val, ) X(unsigned char, dp, )
 */
#ifndef VF_LIBC_H
#define VF_LIBC_H
#include <locale.h>

static char vf_strtod_arg[80];      /* bytes handed to strtod (up to and including the terminator) */
static size_t vf_strtod_arglen;     /* strlen of that string */
static size_t vf_strtod_consumed;
static int vf_strtod_calls;
static double vf_strtod_ret;

static int vf_isdig(char c) { return c >= '0' && c <= '9'; }

#ifdef VF_NATIVE
static unsigned char vf_dp(void) { return (unsigned char)localeconv()->decimal_point[0]; }
static double vf_strtod(const char *s, char **end)
{
    char *e; double v = strtod(s, &e);
    vf_strtod_calls++;
    vf_strtod_arglen = strlen(s);
    if (vf_strtod_arglen < sizeof vf_strtod_arg) memcpy(vf_strtod_arg, s, vf_strtod_arglen + 1);
    vf_strtod_consumed = (size_t)(e - s);
    vf_strtod_ret = v;
    if (end) *end = e;
    return v;
}
#define VF_LIBC_ASSUME() do { } while (0)
#else
static char vf_dp_buf[2];
static struct lconv vf_lconv;
static unsigned char vf_dp(void) { return IN.dp; }
static struct lconv *vf_localeconv(void)
{
    vf_dp_buf[0] = (char)IN.dp; vf_dp_buf[1] = 0;
    vf_lconv.decimal_point = vf_dp_buf;
    return &vf_lconv;
}
static double vf_strtod(const char *s, char **end)
{
    size_t i = 0, j, nint = 0, nfrac = 0, n = 0;
    char dp = (char)IN.dp;
    vf_strtod_calls++;
    /* record the argument: reading it also makes CBMC check that it is terminated inside its object */
    while (s[n] != 0) { if (n < sizeof vf_strtod_arg - 1) vf_strtod_arg[n] = s[n]; n++; }
    vf_strtod_arglen = n;
    if (n < sizeof vf_strtod_arg) vf_strtod_arg[n] = 0;
    if (s[i] == '+' || s[i] == '-') i++;
    while (vf_isdig(s[i])) { i++; nint++; }
    if (s[i] == dp) {
        j = i + 1;
        while (vf_isdig(s[j])) { j++; nfrac++; }
        if (nint + nfrac > 0) i = j;
    }
    if (nint + nfrac == 0) { if (end) *end = (char *)s; vf_strtod_consumed = 0; vf_strtod_ret = 0.0; return 0.0; }
    if (s[i] == 'e' || s[i] == 'E') {
        j = i + 1;
        if (s[j] == '+' || s[j] == '-') j++;
        if (vf_isdig(s[j])) { while (vf_isdig(s[j])) j++; i = j; }
    }
    if (end) *end = (char *)s + i;
    vf_strtod_consumed = i;
    vf_strtod_ret = IN.strtod_val;
    return IN.strtod_val;
}
#define localeconv vf_localeconv
/* strtod never returns NaN for the bytes cJSON forwards ([0-9+-eE.]); the decimal point is '.' or ',' */
#define VF_LIBC_ASSUME() do { VF_ASSUME(IN.dp == '.' || IN.dp == ','); VF_ASSUME(IN.strtod_val == IN.strtod_val); } while (0)
#endif
#define strtod vf_strtod
#endif
