/* Unit: the four public print entry points (set-up, growth through the REAL ensure(), final shrink/copy, failure paths)
 * with print_value replaced by its contract stub (one call writing a short symbolic text through ensure()).
 * API 0: cJSON_PrintPreallocated on a caller buffer object of exactly N bytes (N = 0 allowed), also length < 0 and buffer NULL
 * API 1: cJSON_Print / cJSON_PrintUnformatted        API 2: cJSON_PrintBuffered with symbolic prebuffer in [-1, 8]
 * HOOKS 0: default configuration (library TU built with malloc/free/realloc -> counting allocator, realloc available)
 * HOOKS 1: custom hooks installed through cJSON_InitHooks (no realloc); HOOKS 2: only malloc custom; 3: only free custom */
#ifndef API
#define API 1
#endif
#ifndef HOOKS
#define HOOKS 0
#endif
#ifndef N
#define N 4
#endif
#define VF_NPCALL 1
#define VF_PLEN 6
#define VF_MAXSZ 31
#define VF_EXTRASZ 256
#define VF_INPUTS(X) X(int, fmt, ) X(int, pre, ) X(unsigned char, fail_at, ) X(unsigned char, mode, ) X(unsigned char, init, [N + 1]) \
    X(unsigned char, pp_ok, [VF_NPCALL]) X(unsigned char, pp_len, [VF_NPCALL]) X(unsigned char, pp_adv, [VF_NPCALL]) X(unsigned char, pp_txt, [VF_NPCALL][VF_PLEN])
#include "vf.h"
#include "vf_str.h"
static void *hk_malloc(size_t n) { return vf_malloc(n); }
static void hk_free(void *p) { vf_free(p); }
#include "vf_mem.h"
#define malloc vf_malloc
#define free vf_free
#define realloc vf_realloc
#ifndef VF_LIB
#define VF_LIB "cJSON.c"
#endif
#include VF_LIB
#undef malloc
#undef free
#undef realloc
#include "vf_pstub.h"
#include "vf_frame.h"

int main(VF_MAIN_ARGS)
{
    cJSON item; size_t L, k; int fmt;
    VF_INIT();
    memset(&item, 0, sizeof item); item.type = cJSON_NULL;
    fmt = IN.fmt; L = 1 + IN.pp_len[0] % VF_PLEN;       /* any int: non-zero = formatted */
#if HOOKS == 1
    { cJSON_Hooks h; h.malloc_fn = hk_malloc; h.free_fn = hk_free; cJSON_InitHooks(&h); }
#elif HOOKS == 2
    { cJSON_Hooks h; h.malloc_fn = hk_malloc; h.free_fn = 0; cJSON_InitHooks(&h); }
#elif HOOKS == 3
    { cJSON_Hooks h; h.malloc_fn = 0; h.free_fn = hk_free; cJSON_InitHooks(&h); }
#endif
    VF_FRAME_BEGIN();
#if API == 0
    {
        unsigned char *buf; cJSON_bool ok; int len = N; char *arg;
#if defined(VF_NATIVE) && N == 0
        buf = (unsigned char *)malloc(8) + 8;     /* ASan's malloc(0) is one byte long: use the end of a block as the empty buffer */
#else
        buf = (unsigned char *)malloc(N);
#endif
        VF_NONNULL(buf);
        for (k = 0; k < N; k++) buf[k] = IN.init[k];
        arg = (char *)buf;
        if ((IN.mode & 3) == 1) len = -1 - (int)(IN.mode >> 2);      /* negative length */
        if ((IN.mode & 3) == 2) arg = 0;                              /* NULL buffer */
        ok = cJSON_PrintPreallocated(&item, arg, len, fmt);
        if ((IN.mode & 3) == 1 || (IN.mode & 3) == 2) { VF_AP(9, !ok && pp_calls == 0, "C09 negative length or NULL buffer is refused"); for (k = 0; k < N; k++) VF_AP(9, buf[k] == IN.init[k], "C09 refused call writes nothing"); }
        else {
            if (ok) {
                VF_AP(9, IN.pp_ok[0] && L + 1 <= N, "C09 true only if the value was printed and fits with its terminator");
                for (k = 0; k < L && k < N; k++) VF_AP(9, buf[k] == IN.pp_txt[0][k], "C09 buffer holds the text");
                if (L < N) VF_AP(9, buf[L] == 0, "C09 text is zero-terminated");
                VF_WITNESS("true");
            }
            if (IN.pp_ok[0] && L + 1 + 5 <= N) VF_AP(9, ok, "C09 succeeds when five spare bytes remain");
            if (pp_calls == 1) VF_AP(5, pp_item[0] == &item && pp_off[0] == 0 && pp_depth[0] == 0, "C05 the value is printed at offset 0, depth 0");
        }
        VF_AP(9, vf_nreq == 0 && vf_nfree == 0, "C09 printing into a caller buffer neither allocates nor releases");
    }
#else
    {
        char *s; int may_fail;
        vf_fail_at = IN.fail_at;
#if API == 1
        s = fmt ? cJSON_Print(&item) : cJSON_PrintUnformatted(&item);
        may_fail = !IN.pp_ok[0] || (IN.fail_at >= 1 && IN.fail_at <= 2);
#else
        VF_ASSUME(IN.pre >= -1 && IN.pre <= 8);
        s = cJSON_PrintBuffered(&item, IN.pre, fmt);
        may_fail = !IN.pp_ok[0] || (IN.fail_at >= 1 && IN.fail_at <= 2) || IN.pre < 0;
        if (IN.pre < 0) VF_AP(4, s == 0 && vf_nreq == 0, "C04 negative prebuffer is refused");
#endif
        if (!may_fail) { VF_AP(4, s != 0, "C04 printing succeeds for every initial buffer size, with and without realloc"); VF_AP(8, s != 0, "C08 no failure without a refused allocation"); }
        if (s != 0) {
            VF_AP(4, IN.pp_ok[0], "C04 text only if the value was printed");
            for (k = 0; k < L; k++) { VF_AP(4, ((unsigned char *)s)[k] == IN.pp_txt[0][k], "C04 returned text is what was printed"); VF_AP(5, ((unsigned char *)s)[k] == IN.pp_txt[0][k], "C05 buffered and plain variants return the printed bytes"); }
            VF_AP(4, s[L] == 0, "C04 returned text is zero-terminated");
            VF_AP(7, vf_live == 1, "C07 exactly the returned text remains allocated");
            VF_AP(14, vf_live == 1, "C14 returned text is a live block of the installed allocator");
            if (pp_calls == 1) VF_AP(5, pp_item[0] == &item && pp_off[0] == 0 && pp_depth[0] == 0, "C05 the value is printed at offset 0, depth 0");
            cJSON_free(s);
            VF_AP(14, vf_live == 0, "C14 cJSON_free releases the returned text");
            VF_WITNESS("printed");
        } else {
            VF_AP(8, vf_live == 0, "C08 failed print leaves nothing allocated");
            VF_AP(7, vf_live == 0, "C07 failed print leaves nothing allocated");
            VF_WITNESS("null");
        }
#if HOOKS != 0
        VF_AP(14, vf_nrealloc == 0, "C14 realloc is never used once a custom hook is installed");
#endif
    }
#endif
    VF_FRAME_END(0);
    VF_AP(7, vf_live == 0, "C07 ledger balanced");
    VF_WITNESS("end");
    return 0;
}
