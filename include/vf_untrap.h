#undef malloc
#undef realloc
#undef free
