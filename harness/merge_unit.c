/* C18 units (RFC 7396), recursion replaced by contract stubs so that one level proves every depth by induction.
 * MODE 0: merge_patch(target, patch, case_sensitive=1): target = object with <= K members / scalar / NULL, patch = object with <= K
 *         members (each null or non-null) / non-object.  Recursive call stub: consumes its target argument, returns a fresh value node.
 *         Spec: non-object patch replaces the target by a copy; otherwise members named by a null are absent, members named by a non-null
 *         value hold the recursively merged value, all other members are kept (same nodes); a non-object target starts from {}.
 * MODE 1: generate_merge_patch(from, to, 1): both objects with <= K members (distinct 1-byte keys) or other kinds; compare_json = oracle,
 *         recursion and cJSON_Duplicate = fresh-node stubs.  Spec: patch has exactly: key:null for source-only keys, key:copy for
 *         target-only keys, key:recursive patch for common keys whose values differ; NULL when nothing differs; inputs keep members, WF. */
#ifndef MODE
#define MODE 0
#endif
#ifndef K
#define K 2
#endif
#define VF_SZ_LIST(X) X(1) X(2)
#define VF_INPUTS(X) X(unsigned char, tk, ) X(unsigned char, pk, ) X(unsigned char, nt, ) X(unsigned char, np, ) X(unsigned char, keyt, [K]) X(unsigned char, keyp, [K]) X(unsigned char, pnull, [K]) \
    X(unsigned char, sub_ok, [K + 1]) X(unsigned char, dup_ok, ) X(unsigned char, eq, [K][K]) X(unsigned char, tnull, )
#include "vf.h"
#include "vf_str.h"
#include "vf_mem.h"

static unsigned dup_calls; static const cJSON *dup_arg[K + 2]; static cJSON *dup_ret[K + 2];
static cJSON *fresh(int marker)
{
    cJSON *n = (cJSON *)cJSON_malloc(sizeof(cJSON));
    if (n == 0) return 0;
    memset(n, 0, sizeof *n); n->type = cJSON_True; n->valueint = marker;
    return n;
}
static cJSON *vf_stub_duplicate(const cJSON *item, cJSON_bool recurse)
{
    unsigned k = dup_calls; cJSON *n;
    VF_BOUND(k < K + 2, "more duplicate calls than expected"); VF_ASSUME(k < K + 2);
    dup_calls++; dup_arg[k] = item; dup_ret[k] = 0;
    VF_ASSERT(recurse, "STUB cJSON_Duplicate: recursive copy");
    if (item == 0 || !(IN.dup_ok & 1)) return 0;
    n = fresh(900 + (int)k);
    if (n && item->string) { n->string = (char *)cJSON_malloc(2); if (!n->string) { cJSON_free(n); return 0; } n->string[0] = item->string[0]; n->string[1] = 0; }
    dup_ret[k] = n;
    return n;
}
#define cJSON_Duplicate vf_stub_duplicate
#ifndef VF_LIB
#define VF_LIB "cJSON_Utils.c"
#endif
#include "vf_trap.h"
#include VF_LIB
#include "vf_untrap.h"
#undef cJSON_Duplicate

static unsigned sub_calls; static cJSON *sub_t[K + 1]; static const cJSON *sub_p[K + 1]; static cJSON *sub_ret[K + 1];
static void release_node(cJSON *n) { if (n) { if (n->string) cJSON_free(n->string); cJSON_free(n); } }
#if MODE == 0
static cJSON *merge_patch(cJSON *target, const cJSON * const patch, const cJSON_bool case_sensitive)
{
    unsigned k = sub_calls;
    VF_BOUND(k < K + 1, "more recursive merges than patch members"); VF_ASSUME(k < K + 1);
    sub_calls++; sub_t[k] = target; sub_p[k] = patch; sub_ret[k] = 0;
    VF_ASSERT(case_sensitive && patch != 0, "STUB merge_patch: case-sensitive, patch member given");
    VF_ASSERT(target == 0 || (target->next == 0 && target->prev == 0), "STUB merge_patch: the old value is handed over detached");
    release_node(target);                                   /* the callee consumes its target */
    if (!(IN.sub_ok[k] & 1)) return 0;
    sub_ret[k] = fresh(500 + (int)k);
    return sub_ret[k];
}
#else
static cJSON *generate_merge_patch(cJSON * const from, cJSON * const to, const cJSON_bool case_sensitive)
{
    unsigned k = sub_calls;
    VF_BOUND(k < K + 1, "more recursive generations than members"); VF_ASSUME(k < K + 1);
    sub_calls++; sub_t[k] = from; sub_p[k] = to; sub_ret[k] = 0;
    VF_ASSERT(case_sensitive, "STUB generate_merge_patch: case sensitivity is kept when recursing");
    if (!(IN.sub_ok[k] & 1)) return 0;
    sub_ret[k] = fresh(500 + (int)k);
    return sub_ret[k];
}
static cJSON F, T, cf[K], ct[K]; static unsigned nf, nt2;
static cJSON_bool compare_json(cJSON *a, cJSON *b, const cJSON_bool case_sensitive)
{
    unsigned i, j;
    VF_ASSERT(case_sensitive, "STUB compare_json: case-sensitive");
    for (i = 0; i < K; i++) for (j = 0; j < K; j++) if (i < nf && j < nt2 && a == &cf[i] && b == &ct[j]) return IN.eq[i][j] & 1;
    VF_ASSERT(0, "STUB compare_json: pairs a source member with a target member");
    return 0;
}
#endif

static int count_members(const cJSON *o) { int c = 0; const cJSON *m; for (m = o->child; m != 0 && c <= 2 * K + 1; m = m->next) c++; return c; }
static const cJSON *member(const cJSON *o, unsigned char key) { const cJSON *m; int g = 0; for (m = o->child; m != 0 && g <= 2 * K + 1; m = m->next, g++) if (m->string && ((unsigned char *)m->string)[0] == key && (key == 0 || m->string[1] == 0)) return m; return 0; }
static void check_wf16(const cJSON *o, int cnt)
{
    const cJSON *c, *last = 0; int g = 0;
    for (c = o->child; c != 0 && g <= 2 * K + 1; c = c->next, g++) { if (g) VF_AP(18, c->prev == last, "C18 well-formed: backward links mirror forward links"); last = c; }
    VF_AP(18, c == 0 && g == cnt, "C18 well-formed: member count");
    if (o->child) VF_AP(18, o->child->prev == last, "C18 well-formed: the first member's backward link designates the last member");
}

int main(VF_MAIN_ARGS)
{
    unsigned i, j; cJSON_Hooks h;
    VF_INIT();
    h.malloc_fn = vf_malloc; h.free_fn = vf_free; cJSON_InitHooks(&h);
#if MODE == 0
    {
        cJSON *target = 0, *tm[K], *res; cJSON patch, pm[K]; char pkey[K][2]; unsigned nt, np; int tobj, pobj; long live0;
        tobj = (IN.tk % 3) == 0; pobj = (IN.pk % 3) == 0;
        nt = tobj ? IN.nt % (K + 1) : 0; np = pobj ? IN.np % (K + 1) : 0;
        for (i = 0; i < nt; i++) for (j = i + 1; j < nt; j++) VF_ASSUME(IN.keyt[i] != IN.keyt[j]);
        for (i = 0; i < np; i++) for (j = i + 1; j < np; j++) VF_ASSUME(IN.keyp[i] != IN.keyp[j]);
        if (!(IN.tnull & 1)) {
            cJSON *prev = 0;
            target = (cJSON *)vf_own(sizeof(cJSON)); memset(target, 0, sizeof *target); target->type = tobj ? cJSON_Object : ((IN.tk % 3) == 1 ? cJSON_Array : cJSON_Number);
            for (i = 0; i < nt; i++) { cJSON *m = (cJSON *)vf_own(sizeof(cJSON)); char *ks = (char *)vf_own(2); memset(m, 0, sizeof *m); m->type = cJSON_False; memcpy(ks, &IN.keyt[i], 1); ks[1] = 0; m->string = ks; tm[i] = m; if (prev) { prev->next = m; m->prev = prev; } else target->child = m; prev = m; }
            if (nt) target->child->prev = prev;
        } else nt = 0;
        memset(&patch, 0, sizeof patch); memset(pm, 0, sizeof pm);
        patch.type = pobj ? cJSON_Object : ((IN.pk % 3) == 1 ? cJSON_Array : cJSON_String);
        for (i = 0; i < np; i++) { pm[i].type = ((IN.pnull[i] & 1) ? cJSON_NULL : cJSON_Number) | ((IN.pnull[i] & 2) ? cJSON_StringIsConst : 0) | ((IN.pnull[i] & 4) ? cJSON_IsReference : 0);   /* ownership flags do not change what a member means */ memcpy(pkey[i], &IN.keyp[i], 1); pkey[i][1] = 0; pm[i].string = pkey[i]; if (i) { pm[i - 1].next = &pm[i]; pm[i].prev = &pm[i - 1]; } }
        if (np) { patch.child = &pm[0]; pm[0].prev = &pm[np - 1]; }
        live0 = vf_live;

        res = merge_patch__real(target, &patch, 1);

        if (!pobj) {
            VF_AP(18, dup_calls == 1 && dup_arg[0] == &patch && res == dup_ret[0] && sub_calls == 0, "C18 a non-object patch replaces the target by a copy of the patch");
            VF_AP(18, vf_live == (res ? 1 : 0), "C18 the replaced target is released completely");
            VF_WITNESS("replace");
        } else {
            int allok = 1; unsigned scall = 0;
            for (i = 0; i < np; i++) if (!(IN.pnull[i] & 1)) { if (scall < K + 1 && !(IN.sub_ok[scall] & 1)) { allok = 0; break; } scall++; }
            if (!allok) { VF_AP(18, res == 0, "C18 a failed nested merge makes the whole merge fail"); VF_AP(18, vf_live == 0, "C18 failed merge releases the target"); VF_WITNESS("failed"); }
            else if (res) {
                int expect = 0; unsigned sc = 0;
                VF_AP(18, (res->type & 0xFF) == cJSON_Object, "C18 the result of merging an object patch is an object");
                if (tobj && target) VF_AP(18, res == target, "C18 an object target is updated in place");
                for (i = 0; i < np; i++) {
                    const cJSON *m = member(res, IN.keyp[i]);
                    if (IN.pnull[i] & 1) VF_AP(18, m == 0, "C18 members named by a null patch member are deleted");
                    else {
                        int old = -1; for (j = 0; j < nt; j++) if (IN.keyt[j] == IN.keyp[i]) old = (int)j;
                        VF_AP(18, sc < sub_calls && sub_p[sc] == &pm[i] && sub_t[sc] == (old >= 0 ? tm[old] : 0), "C18 each non-null patch member is merged into the target's member of the same name (or into nothing)");
                        VF_AP(18, m != 0 && m == sub_ret[sc], "C18 the member then holds the recursively merged value");
                        sc++; expect++;
                    }
                }
                for (j = 0; j < nt; j++) { int named = 0; for (i = 0; i < np; i++) if (IN.keyp[i] == IN.keyt[j]) named = 1; if (!named) { VF_AP(18, member(res, IN.keyt[j]) == tm[j], "C18 members the patch does not name are kept"); expect++; } }
                VF_AP(18, count_members(res) == expect, "C18 the result has no other members");
                check_wf16(res, expect);
                VF_WITNESS("merged");
            } else VF_AP(18, 0, "C18 merge of an object patch without failures returns a value");
        }
        (void)live0;
    }
#else
    {
        cJSON *res; char kf[K][2], kt[K][2]; int fobj, tobj2, expect = 0; unsigned sc = 0, dc = 0;
        fobj = (IN.tk % 3) == 0; tobj2 = (IN.pk % 3) == 0;
        nf = fobj ? IN.nt % (K + 1) : 0; nt2 = tobj2 ? IN.np % (K + 1) : 0;
        for (i = 0; i < nf; i++) for (j = i + 1; j < nf; j++) VF_ASSUME(IN.keyt[i] != IN.keyt[j]);
        for (i = 0; i < nt2; i++) for (j = i + 1; j < nt2; j++) VF_ASSUME(IN.keyp[i] != IN.keyp[j]);
        memset(&F, 0, sizeof F); memset(&T, 0, sizeof T); memset(cf, 0, sizeof cf); memset(ct, 0, sizeof ct);
        F.type = fobj ? cJSON_Object : cJSON_Number; T.type = tobj2 ? cJSON_Object : cJSON_String;
        for (i = 0; i < nf; i++) { cf[i].type = cJSON_Number; memcpy(kf[i], &IN.keyt[i], 1); kf[i][1] = 0; cf[i].string = kf[i]; if (i) { cf[i - 1].next = &cf[i]; cf[i].prev = &cf[i - 1]; } }
        for (i = 0; i < nt2; i++) { ct[i].type = cJSON_Number; memcpy(kt[i], &IN.keyp[i], 1); kt[i][1] = 0; ct[i].string = kt[i]; if (i) { ct[i - 1].next = &ct[i]; ct[i].prev = &ct[i - 1]; } }
        if (nf) { F.child = &cf[0]; cf[0].prev = &cf[nf - 1]; }
        if (nt2) { T.child = &ct[0]; ct[0].prev = &ct[nt2 - 1]; }

        res = generate_merge_patch__real(&F, (IN.tnull & 1) ? 0 : &T, 1);

        if (IN.tnull & 1) { VF_AP(18, res != 0 && (res->type & 0xFF) == cJSON_NULL, "C18 a missing target generates the null patch"); }
        else if (!fobj || !tobj2) { VF_AP(18, dup_calls == 1 && dup_arg[0] == &T && res == dup_ret[0], "C18 if either side is no object the patch is a copy of the target"); VF_WITNESS("copy"); }
        else {
            /* expected members */
            for (i = 0; i < nf; i++) { int common = -1; for (j = 0; j < nt2; j++) if (IN.keyt[i] == IN.keyp[j]) common = (int)j; if (common < 0 || !(IN.eq[i][common] & 1)) expect++; }
            for (j = 0; j < nt2; j++) { int common = 0; for (i = 0; i < nf; i++) if (IN.keyt[i] == IN.keyp[j]) common = 1; if (!common) expect++; }
            if (expect == 0) { VF_AP(18, res == 0, "C18 equal objects generate no patch (NULL)"); VF_AP(18, vf_live == 0, "C18 nothing stays allocated for an empty patch"); VF_WITNESS("nopatch"); }
            else if ((IN.dup_ok & 1)) {
                int allsub = 1; for (i = 0; i < K + 1; i++) if (!(IN.sub_ok[i] & 1)) allsub = 0;
                if (allsub) VF_AP(18, res != 0 && (res->type & 0xFF) == cJSON_Object, "C18 differing objects generate an object patch");
                if (res && allsub) {
                    for (i = 0; i < nf; i++) { int common = -1; const cJSON *m = member(res, IN.keyt[i]); for (j = 0; j < nt2; j++) if (IN.keyt[i] == IN.keyp[j]) common = (int)j;
                        if (common < 0) VF_AP(18, m != 0 && (m->type & 0xFF) == cJSON_NULL, "C18 source-only members are deleted by a null member");
                        else if (!(IN.eq[i][common] & 1)) VF_AP(18, m != 0 && m->valueint >= 500 && m->valueint < 500 + K + 1, "C18 common members with different values carry the recursively generated patch");
                        else VF_AP(18, m == 0, "C18 equal common members do not appear in the patch"); }
                    for (j = 0; j < nt2; j++) { int common = 0; const cJSON *m = member(res, IN.keyp[j]); for (i = 0; i < nf; i++) if (IN.keyt[i] == IN.keyp[j]) common = 1; if (!common) VF_AP(18, m != 0 && m->valueint >= 900, "C18 target-only members carry a copy of the target value"); }
                    VF_AP(18, count_members(res) == expect, "C18 the patch has no other members");
                    for (i = 0; i < sub_calls && i < K + 1; i++) { int a = -1, b = -1; for (j = 0; j < K; j++) { if (sub_t[i] == &cf[j]) a = (int)j; if (sub_p[i] == &ct[j]) b = (int)j; } VF_AP(18, a >= 0 && b >= 0 && IN.keyt[a] == IN.keyp[b], "C18 recursion pairs members of the same name"); }
                    check_wf16(res, expect);
                    VF_WITNESS("patch");
                }
            }
            /* inputs keep their members and stay well-formed (they were sorted) */
            { const cJSON *c, *last = 0; int g = 0; for (c = F.child; c != 0 && g <= K; c = c->next, g++) { if (g) VF_AP(19, c->prev == last, "C19 after merge-patch generation: backward links mirror forward links"); last = c; } VF_AP(18, g == (int)nf, "C18 source keeps its members"); if (nf) VF_AP(19, F.child->prev == last, "C19 after merge-patch generation: tail link of the source"); }
            { const cJSON *c, *last = 0; int g = 0; for (c = T.child; c != 0 && g <= K; c = c->next, g++) { if (g) VF_AP(19, c->prev == last, "C19 after merge-patch generation: backward links mirror forward links"); last = c; } VF_AP(18, g == (int)nt2, "C18 target keeps its members"); if (nt2) VF_AP(19, T.child->prev == last, "C19 after merge-patch generation: tail link of the target"); }
        }
        (void)sc; (void)dc;
    }
#endif
    VF_WITNESS("end");
    return 0;
}
