/* NOT REGISTERED (no verdict within 30 min for NF=2, NT=1 with MiniSat or CaDiCaL; kept as the record of the attempt, DESIGN.md section 8/10).
 * C18 cross-check of the unit decomposition: the REAL generate_merge_patch / compare_json / sort_object / cJSON_Duplicate (no stubs) on
 * documents {"o": F} and {"o": T}: F has <= NF members, T has <= NT members, 1-byte keys from {a,b,c,d} in ANY order (distinct inside one
 * object), member values true/false.  The generated patch must be exactly the RFC 7396 difference: NULL when F and T hold the same
 * members, otherwise {"o": P} where P names every source-only key with null, every target-only or changed key with the target's value,
 * and nothing else (each key once).  This exercises what the units take from each other: generation of a NESTED object relies on
 * whatever ordering the levels above left behind. */
#ifndef NF
#define NF 2
#endif
#ifndef NT
#define NT 3
#endif
#define VF_INPUTS(X) X(unsigned char, nf, ) X(unsigned char, nt, ) X(unsigned char, kf, [NF]) X(unsigned char, kt, [NT]) X(unsigned char, vf, [NF]) X(unsigned char, vt, [NT])
#include "vf.h"
#include "vf_str.h"
#include "vf_mem.h"
#ifndef VF_LIB
#define VF_LIB "cJSON_Utils.c"
#endif
#include VF_LIB

static const cJSON *member1(const cJSON *o, unsigned char key, int *count)
{
    const cJSON *m, *hit = 0; int g = 0;
    for (m = o->child; m != 0 && g <= NF + NT + 1; m = m->next, g++) if (m->string && (unsigned char)m->string[0] == key && m->string[1] == 0) { hit = m; (*count)++; }
    return hit;
}
static int nmembers(const cJSON *o) { int c = 0; const cJSON *m; for (m = o->child; m != 0 && c <= NF + NT + 1; m = m->next) c++; return c; }

int main(VF_MAIN_ARGS)
{
    static cJSON FO, TO, F, T, cf[NF], ct[NT]; static char kf[NF][2], kt[NT][2], ko1[2] = "o", ko2[2] = "o";
    unsigned i, j, nf, nt; int expect = 0; cJSON *patch;
    VF_INIT();
    nf = IN.nf % (NF + 1); nt = IN.nt % (NT + 1);
    for (i = 0; i < nf; i++) { VF_ASSUME(IN.kf[i] >= 'a' && IN.kf[i] <= 'd'); for (j = i + 1; j < nf; j++) VF_ASSUME(IN.kf[i] != IN.kf[j]); }
    for (i = 0; i < nt; i++) { VF_ASSUME(IN.kt[i] >= 'a' && IN.kt[i] <= 'd'); for (j = i + 1; j < nt; j++) VF_ASSUME(IN.kt[i] != IN.kt[j]); }
    FO.type = TO.type = F.type = T.type = cJSON_Object;
    FO.child = &F; F.prev = &F; F.string = ko1; TO.child = &T; T.prev = &T; T.string = ko2;
    for (i = 0; i < nf; i++) { cf[i].type = (IN.vf[i] & 1) ? cJSON_True : cJSON_False; kf[i][0] = (char)IN.kf[i]; cf[i].string = kf[i]; if (i) { cf[i - 1].next = &cf[i]; cf[i].prev = &cf[i - 1]; } }
    for (i = 0; i < nt; i++) { ct[i].type = (IN.vt[i] & 1) ? cJSON_True : cJSON_False; kt[i][0] = (char)IN.kt[i]; ct[i].string = kt[i]; if (i) { ct[i - 1].next = &ct[i]; ct[i].prev = &ct[i - 1]; } }
    if (nf) { F.child = &cf[0]; cf[0].prev = &cf[nf - 1]; }
    if (nt) { T.child = &ct[0]; ct[0].prev = &ct[nt - 1]; }

    patch = cJSONUtils_GenerateMergePatchCaseSensitive(&FO, &TO);

    for (i = 0; i < nf; i++) { int common = -1; for (j = 0; j < nt; j++) if (IN.kf[i] == IN.kt[j]) common = (int)j; if (common < 0 || ((IN.vf[i] ^ IN.vt[common]) & 1)) expect++; }
    for (j = 0; j < nt; j++) { int common = 0; for (i = 0; i < nf; i++) if (IN.kf[i] == IN.kt[j]) common = 1; if (!common) expect++; }
    if (expect == 0) { VF_AP(18, patch == 0, "C18 nested objects with the same members (in any order) generate no patch"); VF_WITNESS("nopatch"); }
    else {
        const cJSON *P;
        VF_AP(18, patch != 0 && (patch->type & 0xFF) == cJSON_Object && nmembers(patch) == 1, "C18 a nested difference generates an object patch with the one differing member");
        P = patch ? patch->child : 0;
        VF_AP(18, P != 0 && P->string != 0 && P->string[0] == 'o' && P->string[1] == 0 && (P->type & 0xFF) == cJSON_Object, "C18 the nested patch is an object under the same name");
        if (P && (P->type & 0xFF) == cJSON_Object) {
            for (i = 0; i < nf; i++) { int common = -1, cnt = 0; const cJSON *m = member1(P, IN.kf[i], &cnt); for (j = 0; j < nt; j++) if (IN.kf[i] == IN.kt[j]) common = (int)j;
                if (common < 0) VF_AP(18, cnt == 1 && (m->type & 0xFF) == cJSON_NULL, "C18 nested source-only members are deleted by exactly one null member");
                else if ((IN.vf[i] ^ IN.vt[common]) & 1) VF_AP(18, cnt == 1 && (m->type & 0xFF) == ((IN.vt[common] & 1) ? cJSON_True : cJSON_False), "C18 nested changed members carry the target's value, once");
                else VF_AP(18, cnt == 0, "C18 nested equal members do not appear in the patch"); }
            for (j = 0; j < nt; j++) { int common = 0, cnt = 0; const cJSON *m = member1(P, IN.kt[j], &cnt); for (i = 0; i < nf; i++) if (IN.kf[i] == IN.kt[j]) common = 1;
                if (!common) VF_AP(18, cnt == 1 && (m->type & 0xFF) == ((IN.vt[j] & 1) ? cJSON_True : cJSON_False), "C18 nested target-only members carry the target's value, once"); }
            VF_AP(18, nmembers(P) == expect, "C18 the nested patch has no other members");
        }
        VF_WITNESS("patch");
    }
    VF_WITNESS("end");
    return 0;
}
