/* Integration (thorough tier): the REAL parser, no stubs, on every buffer of exactly M bytes (M = 1..3) through
 * cJSON_ParseWithLengthOpts, built with -DCJSON_NESTING_LIMIT=2 (documented build knob) to keep the recursive call tree finite.
 * Purpose: the contracts used by the unit queries compose on the real call graph - no access outside the buffer, input not written,
 * result NULL or a well-formed tree whose deletion balances the ledger, error pointer inside the buffer. */
#ifndef M
#define M 2
#endif
#define VF_MAXSZ (M + 2)
#define VF_INPUTS(X) X(unsigned char, b, [M]) X(unsigned char, req, ) X(double, strtod_val, ) X(unsigned char, dp, )
#include "vf.h"
#include "vf_str.h"
#include "vf_libc.h"
#define malloc vf_malloc
#define free vf_free
#define realloc vf_realloc
#include "cJSON.c"
#undef malloc
#undef free
#undef realloc
static void walk(const cJSON *n, unsigned depth)
{
    const cJSON *c, *last = 0; unsigned g = 0;
    VF_AP(1, depth <= CJSON_NESTING_LIMIT, "C01 nesting of the result is bounded by CJSON_NESTING_LIMIT");
    for (c = n->child; c != 0 && g <= M; c = c->next, g++) { if (g) VF_AP(1, c->prev == last, "C01 parsed tree: backward links mirror forward links"); walk(c, depth + 1); last = c; }
    VF_AP(1, c == 0, "C01 parsed tree: chains end");
    if (n->child) VF_AP(1, n->child->prev == last, "C01 parsed tree: tail link");
}
int main(VF_MAIN_ARGS)
{
    unsigned char *content; cJSON *r; const char *end = 0;
    VF_INIT(); VF_LIBC_ASSUME();
    content = (unsigned char *)vf_exact(IN.b, M);
    r = cJSON_ParseWithLengthOpts((const char *)content, M, &end, IN.req & 1);
    VF_AP(1, memcmp(content, IN.b, M) == 0, "C01 input not written");
    if (r) { walk(r, 0); VF_AP(10, end >= (const char *)content && end <= (const char *)content + M && cJSON_GetErrorPtr() == 0, "C10 parse end inside the buffer, no error pointer"); cJSON_Delete(r); VF_WITNESS("accepted"); }
    else { VF_AP(10, end == cJSON_GetErrorPtr() && end >= (const char *)content && end <= (const char *)content + M - 1, "C10 error position inside the buffer"); VF_WITNESS("rejected"); }
    VF_AP(1, vf_live == 0, "C01 nothing leaks, accepted or rejected");
    VF_AP(3, vf_live == 0, "C03 rejection leaves nothing behind");
    VF_WITNESS("end");
    free(content);
    return 0;
}
