/* cJSON_Duplicate on every well-formed tree of height <= TD, <= TK children, including string references, container references
 * and constant keys; recurse symbolic; a symbolic allocation request may be refused (C08).
 * MODE 1: cyclic / over-deep structures with -DCJSON_CIRCULAR_LIMIT=3 (refused with NULL, nothing leaked, recursion bounded). */
#ifndef TD
#define TD 2
#endif
#ifndef TK
#define TK 2
#endif
#define TS 1
#ifndef MODE
#define MODE 0
#endif
#define VF_FLAGS (VF_FLAG_REF | VF_FLAG_CONSTKEY | VF_FLAG_REFCONT)
#define VF_KINDS 0xFF
#include "vf_tree.h"
#define VF_INPUTS(X) VF_TREE_INPUTS(X) X(unsigned char, recurse, ) X(int, recval, ) X(unsigned char, fail_at, ) X(unsigned char, shape, )
#define VF_MAXSZ 7
#include "vf.h"
#include "vf_str.h"
#include "vf_tree.h"
#include "vf_mem.h"
#define malloc vf_malloc
#define free vf_free
#define realloc vf_realloc
#include "cJSON.c"
#undef malloc
#undef free
#undef realloc
#include "vf_frame.h"
#define INJECTED (vf_fail_at != 0 && vf_nreq >= vf_fail_at)

static vf_tree T; static cJSON snap[TNN]; static long copy_blocks;

/* specification walker: copy c must equal source node i of the model (deep when deep != 0) */
static void check_copy(const cJSON *c, unsigned i, int deep, int is_root)
{
    const cJSON *s = T.node[i]; unsigned j, nk; const cJSON *cc, *last = 0;
    copy_blocks += 1;
    VF_AP(11, c != 0 && c != s, "C11 copy node is a new node");
    VF_AP(11, (c->type & 0xFF) == (s->type & 0xFF) && !(c->type & cJSON_IsReference), "C11 same kind, reference flag cleared");
    VF_AP(11, c->valueint == s->valueint && (c->valuedouble == s->valuedouble), "C11 same number");
    if (s->valuestring) { VF_AP(11, c->valuestring != 0 && c->valuestring != s->valuestring && strcmp(c->valuestring, s->valuestring) == 0, "C11 strings (also referenced ones) become owned equal copies"); copy_blocks += 1; }
    else VF_AP(11, c->valuestring == 0, "C11 no string invented");
    if (s->string) {
        if (s->type & cJSON_StringIsConst) VF_AP(11, c->string == s->string && (c->type & cJSON_StringIsConst), "C11 constant keys stay shared and flagged");
        else { VF_AP(11, c->string != 0 && c->string != s->string && strcmp(c->string, s->string) == 0 && !(c->type & cJSON_StringIsConst), "C11 owned keys are copied"); copy_blocks += 1; }
    } else VF_AP(11, c->string == 0, "C11 no key invented");
    if (is_root) VF_AP(11, c->next == 0 && c->prev == 0, "C11 the copy has no sibling links");
    if (!deep) { VF_AP(11, c->child == 0, "C11 non-recursive duplicate copies the node alone"); return; }
    nk = vf_tnk(&T, i); cc = c->child;
    for (j = 0; j < nk; j++) {
        VF_AP(11, cc != 0, "C11 every child is copied, in order");
        if (cc == 0) return;
        if (j > 0) VF_AP(11, cc->prev == last, "C11 copy: each backward link mirrors a forward link");
        check_copy(cc, i * TK + 1 + j, 1, 0);
        last = cc; cc = cc->next;
    }
    VF_AP(11, cc == 0, "C11 no extra children");
    if (nk > 0) VF_AP(11, c->child->prev == last, "C11 copy: the first child's backward link designates the last child");
}

int main(VF_MAIN_ARGS)
{
    cJSON *root, *copy; unsigned i; long live0;
    VF_INIT();
#if MODE == 0
    VF_TREE_BIND(T, t_);
    root = vf_build(&T);
    for (i = 0; i < TNN; i++) if (T.node[i]) snap[i] = *T.node[i];
    live0 = vf_live;
    vf_fail_at = IN.fail_at ? vf_nreq + IN.fail_at : 0;

    VF_FRAME_BEGIN();
    copy = cJSON_Duplicate(root, (IN.recurse & 1) ? (IN.recval != 0 ? IN.recval : 1) : 0);     /* cJSON.h: "With recurse!=0, it will duplicate any children" - any non-zero int */
    VF_FRAME_END(0);

    for (i = 0; i < TNN; i++) if (T.node[i]) VF_AP(11, memcmp(&snap[i], T.node[i], sizeof(cJSON)) == 0, "C11 the source is never modified");
    if (copy) {
        VF_AP(8, !INJECTED, "C08 success impossible after a refused request");
        copy_blocks = 0;
        check_copy(copy, 0, IN.recurse & 1, 1);
        VF_AP(11, vf_live == live0 + copy_blocks, "C11 the copy owns exactly its own new blocks (no sharing of owned memory, no leak)");
        VF_AP(7, vf_live == live0 + copy_blocks, "C07 duplicate allocates exactly what the copy owns");
        VF_WITNESS("copied");
        /* independence: deleting the copy leaves the source intact (and readable) */
        vf_fail_at = 0;
#ifndef NODELETE
        cJSON_Delete(copy);
        VF_AP(11, vf_live == live0, "C11 deleting the copy releases exactly the copy");
        for (i = 0; i < TNN; i++) if (T.node[i]) VF_AP(11, memcmp(&snap[i], T.node[i], sizeof(cJSON)) == 0, "C11 deleting the copy does not change the source");
#endif
    } else {
        VF_AP(8, INJECTED, "C08 duplicate of a well-formed tree fails only after a refused request");
        VF_AP(8, vf_live == live0, "C08 failed duplicate leaves nothing allocated");
        VF_AP(11, vf_live == live0, "C11 refused duplicate leaks nothing");
        VF_WITNESS("null");
    }
#else
    {   /* cyclic / over-deep: chain a0 -> a1 -> ... of arrays, each with a leading number sibling so that partial copies exist */
        cJSON a[6], lead[6]; unsigned depth = 2 + IN.shape % 3, k; int cyc = (IN.shape >> 4) & 1; int over;
        memset(a, 0, sizeof a); memset(lead, 0, sizeof lead);
        for (k = 0; k < 6; k++) { a[k].type = cJSON_Array; lead[k].type = cJSON_Number; }
        for (k = 0; k + 1 < depth; k++) { a[k].child = &lead[k]; lead[k].next = &a[k + 1]; a[k + 1].prev = &lead[k]; lead[k].prev = &a[k + 1]; }
        if (cyc) { a[depth - 1].child = &lead[depth - 1]; lead[depth - 1].next = &a[0]; lead[depth - 1].prev = &lead[depth - 1]; }   /* closes the cycle (a[0].prev left as is) */
        over = cyc || (depth - 1 > CJSON_CIRCULAR_LIMIT);
        live0 = vf_live;
        copy = cJSON_Duplicate(&a[0], 1);
        if (over) { VF_AP(11, copy == 0, "C11 cyclic or deeper-than-CJSON_CIRCULAR_LIMIT structures are refused"); VF_AP(11, vf_live == live0, "C11 refusal leaks nothing"); VF_WITNESS("refused"); }
        else { VF_AP(11, copy != 0, "C11 structures within the limit are duplicated"); if (copy) cJSON_Delete(copy); VF_AP(11, vf_live == live0, "C11 ledger"); VF_WITNESS("copied"); }
        (void)root; (void)i;
    }
#endif
    VF_WITNESS("end");
    return 0;
}
