/* C13: cJSON_Minify on a zero-terminated buffer of exactly L+1 bytes, all L content bytes symbolic (non-zero).
 * Safety : every access stays inside the L+1 byte object (CBMC bounds checks / ASan), the result is
 *          zero-terminated inside it and not longer than the original.
 * Value  : for every input on which the reference minifier is defined (strings and block comments closed,
 *          every '/' outside strings starts a comment) the result equals the reference result byte for byte,
 *          and minifying the result again changes nothing.  Valid JSON with comments/whitespace is a subset. */
#ifndef L
#define L 6
#endif
#define VF_INPUTS(X) X(unsigned char, s, [L + 1])
#include "vf.h"
#include "vf_str.h"
#include "cJSON.c"
#include "vf_frame.h"

/* independent reference: returns 1 if defined on the input, writes result to out (size >= L+1) */
static int ref_minify(const unsigned char *in, unsigned char *out)
{
    size_t i = 0, o = 0;
    while (in[i] != 0) {
        unsigned char c = in[i];
        if (c == ' ' || c == '\t' || c == '\r' || c == '\n') { i++; }
        else if (c == '/') {
            if (in[i + 1] == '/') { i += 2; while (in[i] != 0 && in[i] != '\n') i++; if (in[i] == '\n') i++; }
            else if (in[i + 1] == '*') { i += 2; for (;;) { if (in[i] == 0) return 0; if (in[i] == '*' && in[i + 1] == '/') { i += 2; break; } i++; } }
            else return 0;
        }
        else if (c == '"') {
            out[o++] = in[i++];
            for (;;) {
                if (in[i] == 0) return 0;
                if (in[i] == '\\') { if (in[i + 1] == 0) return 0; out[o++] = in[i++]; out[o++] = in[i++]; continue; }
                if (in[i] == '"') { out[o++] = in[i++]; break; }
                out[o++] = in[i++];
            }
        }
        else { out[o++] = in[i++]; }
    }
    out[o] = 0;
    return 1;
}

int main(VF_MAIN_ARGS)
{
    unsigned char orig[L + 1], ref[L + 1], once[L + 1];
    char *buf; size_t i, n; int defined;
    VF_INIT();
    for (i = 0; i < L; i++) { VF_ASSUME(IN.s[i] != 0); orig[i] = IN.s[i]; }
    orig[L] = 0;
    buf = (char *)vf_exact(orig, L + 1);

    VF_FRAME_BEGIN();
    cJSON_Minify(buf);
    VF_FRAME_END(0);

    n = 0; while (n <= L && buf[n] != 0) n++;
    VF_ASSERT(n <= L, "C13 result is zero-terminated inside the buffer and not longer than the original");

    defined = ref_minify(orig, ref);
    if (defined) {
        VF_ASSERT(strcmp(buf, (char *)ref) == 0, "C13 result equals the reference minification (strings kept byte for byte, no whitespace/comments outside)");
        memcpy(once, buf, L + 1);
        cJSON_Minify(buf);
        VF_ASSERT(strcmp(buf, (char *)once) == 0, "C13 minifying twice equals minifying once");
        VF_WITNESS("value");
    }
    VF_WITNESS("end");
    free(buf);
    return 0;
}
