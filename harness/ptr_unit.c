/* Unit: cJSONUtils_FindPointerFromObjectTo on one container with n <= K children, the RECURSIVE call replaced by a stub:
 * for the child f that (transitively) contains the target it returns a freshly allocated pointer suffix (symbolic text),
 * for every other child NULL.  Expected result: "/" + decimal(f) + suffix for arrays, "/" + RFC 6901-escape(key_f) + suffix
 * for objects; NULL when no child contains the target; "" when object == target.  Induction over the depth gives the whole
 * pointer; the escaping is checked by an independent unescaper. All memory goes through the installed hooks (ledger). */
#ifndef K
#define K 3
#endif
#define TS 2
#define SUF 2
#define VF_SZ_LIST(X) X(1) X(2) X(3) X(4) X(5) X(6) X(7) X(8) X(9) X(22) X(23) X(24)
#define VF_MAXDIGITS 2
#define VF_INPUTS(X) X(unsigned char, isobj, ) X(unsigned char, n, ) X(unsigned char, f, ) X(unsigned char, key, [K + 1][TS + 1]) X(unsigned char, suf, [SUF + 1]) X(unsigned char, mode, ) \
    X(unsigned char, g_text, [2][26]) X(double, g_val, ) X(double, strtod_val, ) X(unsigned char, dp, )
#include "vf.h"
#include "vf_str.h"
#define VF_MODEL_PRINTF
#include "vf_libc.h"
#include "vf_mem.h"
#ifndef VF_LIB
#define VF_LIB "cJSON_Utils.c"
#endif
#include "vf_trap.h"
#include VF_LIB
#include "vf_untrap.h"

static cJSON obj, kid[K + 1], target; static unsigned n, f, calls;
CJSON_PUBLIC(char *) cJSONUtils_FindPointerFromObjectTo(const cJSON * const object, const cJSON * const t)
{
    unsigned i; char *s; size_t k;
    calls++;
    VF_ASSERT(t == &target, "STUB recursion keeps the target");
    for (i = 0; i < K; i++) if (i < n && object == &kid[i]) {
        if (i != f) return 0;
        s = (char *)cJSON_malloc(SUF + 1);
        VF_ASSUME(s != 0);
        for (k = 0; k < SUF; k++) s[k] = (char)IN.suf[k];
        s[SUF] = 0;
        return s;
    }
    VF_ASSERT(0, "STUB recursion only descends into the children");
    return 0;
}

int main(VF_MAIN_ARGS)
{
    unsigned i; char *r; cJSON_Hooks h; unsigned char exp[32]; size_t o = 0, k;
    VF_INIT(); VF_LIBC_ASSUME();
    n = IN.n % (K + 1); f = IN.f % (K + 1);       /* f == n..K: no child contains the target */
    for (k = 0; k < SUF; k++) VF_ASSUME(IN.suf[k] < 0x80);
    memset(&obj, 0, sizeof obj); memset(kid, 0, sizeof kid); memset(&target, 0, sizeof target);
    obj.type = (IN.mode % 4 == 3) ? cJSON_Raw : ((IN.isobj & 1) ? cJSON_Object : cJSON_Array);
    if (IN.isobj & 2) obj.type |= cJSON_StringIsConst;
    if (IN.isobj & 4) obj.type |= cJSON_IsReference;
    for (i = 0; i < n; i++) { kid[i].type = cJSON_NULL; IN.key[i][TS] = 0; kid[i].string = (char *)IN.key[i]; if (i) { kid[i - 1].next = &kid[i]; kid[i].prev = &kid[i - 1]; } }
    if (n) { obj.child = &kid[0]; kid[0].prev = &kid[n - 1]; }
    h.malloc_fn = vf_malloc; h.free_fn = vf_free; cJSON_InitHooks(&h);

    if (IN.mode % 4 == 1) { r = cJSONUtils_FindPointerFromObjectTo__real(&obj, &obj); VF_AP(15, r != 0 && r[0] == 0 && calls == 0, "C15 the pointer from a node to itself is the empty pointer"); }
    else if (IN.mode % 4 == 2) { r = cJSONUtils_FindPointerFromObjectTo__real(0, &target); VF_AP(15, r == 0 && cJSONUtils_FindPointerFromObjectTo__real(&obj, 0) == 0, "C15 NULL arguments give no pointer"); }
    else {
        r = cJSONUtils_FindPointerFromObjectTo__real(&obj, &target);
        if (f >= n || (obj.type & 0xFF) == cJSON_Raw) { VF_AP(15, r == 0, "C15 no pointer when no child contains the target (or the node is no container)"); VF_AP(7, vf_live == 0, "C07 nothing stays allocated when no pointer is returned"); VF_WITNESS("none"); }
        else {
            exp[o++] = '/';
            if ((obj.type & 0xFF) == cJSON_Array) { if (f >= 10) exp[o++] = (unsigned char)('0' + f / 10); exp[o++] = (unsigned char)('0' + f % 10); }
            else for (k = 0; k < TS && IN.key[f][k]; k++) { unsigned char c = IN.key[f][k]; if (c == '~') { exp[o++] = '~'; exp[o++] = '0'; } else if (c == '/') { exp[o++] = '~'; exp[o++] = '1'; } else exp[o++] = c; }
            for (k = 0; k < SUF && IN.suf[k]; k++) exp[o++] = IN.suf[k];
            exp[o] = 0;
            VF_AP(15, r != 0, "C15 a pointer is constructed for every node inside the tree (ownership flag bits on the container do not matter)");
            if (r) { VF_AP(15, strcmp(r, (char *)exp) == 0, "C15 constructed pointer = '/' + index or RFC 6901-escaped key + pointer below"); VF_AP(7, vf_live == 1, "C07 only the returned pointer stays allocated"); VF_WITNESS("built"); }
        }
    }
    if (r) cJSON_free(r);
    VF_AP(14, vf_live == 0, "C14 pointer text is released by cJSON_free through the installed hooks");
    VF_WITNESS("end");
    return 0;
}
