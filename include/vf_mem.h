/* vf_mem.h - byte-loop memcpy for the library TU (CBMC build only).
 * CBMC's built-in memcpy with a non-constant size goes through a variable-length array copy, which is both a symbolic-size
 * object (cost) and gave counterexamples that do not reproduce; a bounded byte loop is exact. Include before the library. */
#ifndef VF_MEM_H
#define VF_MEM_H
#ifndef VF_NATIVE
static void *vf_memcpy(void *dst, const void *src, size_t n)
{
    size_t i; unsigned char *d = (unsigned char *)dst; const unsigned char *s = (const unsigned char *)src;
    for (i = 0; i < n; i++) d[i] = s[i];
    return dst;
}
#define memcpy vf_memcpy
/* CBMC's built-in strcpy demands that source and destination are different OBJECTS; cJSON_SetValuestring copies within whatever
 * memory the caller provides, so the library TU gets a byte-loop strcpy as well */
static char *vf_strcpy(char *dst, const char *src)
{
    size_t i = 0;
    for (;; i++) { dst[i] = src[i]; if (src[i] == 0) break; }
    return dst;
}
#define strcpy vf_strcpy
#endif
#endif
