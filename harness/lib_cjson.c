/* lib_cjson.c - cJSON.c (from the scratch copy of /repo) as the separately linked translation unit of the cJSON_Utils harnesses,
 * compiled with the same byte-loop memcpy / strcpy and string-function models as the harness translation unit (CBMC's built-in
 * memcpy with a symbolic size produces counterexamples that do not reproduce). Natively the models are off. */
#include <stddef.h>
#include <stdlib.h>
#include <string.h>
#include "vf_mem.h"
#include "vf_str.h"
#include "cJSON.c"
