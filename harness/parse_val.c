/* Unit: parse_value (literal recognition and first-byte dispatch) on a buffer object of exactly M bytes, any offset,
 * with parse_string / parse_number / parse_array / parse_object replaced by stubs.  Also discharges the contract that
 * vf_stub_parse_value assumes elsewhere (success => dispatch byte, offset grows and stays inside, kind set). */
#ifndef M
#define M 6
#endif
#define VF_NCALL 1
#define VF_STUB_SUBS
#define VF_INPUTS(X) X(unsigned char, b, [M]) X(unsigned, off, ) X(unsigned char, sub_ok, ) X(unsigned char, sub_len, ) X(unsigned char, fail_at, ) \
    X(unsigned char, pv_ok, [VF_NCALL]) X(unsigned char, pv_len, [VF_NCALL]) X(unsigned char, pv_kind, [VF_NCALL]) \
    X(unsigned char, ps_ok, [VF_NCALL]) X(unsigned char, ps_len, [VF_NCALL])
#include "vf.h"
#include "vf_str.h"
#ifndef VF_LIB
#define VF_LIB "cJSON.c"
#endif
#include VF_LIB
#include "vf_stubs.h"

static int lit(const unsigned char *c, size_t off, const char *w, size_t n)
{
    size_t k;
    if (off + n > M) return 0;
    for (k = 0; k < n; k++) if (c[off + k] != (unsigned char)w[k]) return 0;
    return 1;
}

int main(VF_MAIN_ARGS)
{
    parse_buffer buf; cJSON item; unsigned char *content; cJSON_bool ok; size_t off; unsigned char first;
    VF_INIT();
    VF_ASSUME(IN.off <= M);
    off = IN.off;
    content = (unsigned char *)vf_exact(IN.b, M);
    memset(&buf, 0, sizeof buf); memset(&item, 0, sizeof item);
    buf.content = content; buf.length = M; buf.offset = off;
    buf.hooks.allocate = vf_malloc; buf.hooks.deallocate = vf_free; buf.hooks.reallocate = 0;
    vf_fail_at = IN.fail_at;

    ok = parse_value__real(&item, &buf);

    first = off < M ? content[off] : 0;
    VF_AP(1, memcmp(content, IN.b, M) == 0, "C01 input not written");
    VF_AP(10, buf.offset <= buf.length, "C10 offset stays inside the buffer");
    /* the contract assumed by vf_stub_parse_value */
    if (ok) {
        VF_ASSERT(off < M && vf_value_start(first), "CONTRACT parse_value success => first byte is in the dispatch set");
        VF_ASSERT(buf.offset > off && buf.offset <= M, "CONTRACT parse_value success => offset grows and stays inside");
        VF_ASSERT(item.type == cJSON_NULL || item.type == cJSON_False || item.type == cJSON_True || item.type == cJSON_Number || item.type == cJSON_String || item.type == cJSON_Array || item.type == cJSON_Object, "CONTRACT parse_value success => JSON kind set");
        VF_WITNESS("accepted");
    } else {
        VF_ASSERT(vf_live == 0 && item.valuestring == 0 && item.child == 0, "CONTRACT parse_value failure => item owns nothing");
    }
    /* C10 (prefix re-parse): whether a value is recognised does not depend on what follows it - in particular not on whether anything follows */
    if (lit(content, off, "null", 4) || lit(content, off, "false", 5) || lit(content, off, "true", 4)) VF_AP(10, ok && buf.offset == off + (lit(content, off, "false", 5) ? 5 : 4), "C10 a literal is recognised wherever it ends, also flush with the end of the buffer");
    if (lit(content, off, "null", 4)) { VF_AP(2, ok && item.type == cJSON_NULL && buf.offset == off + 4 && sub_calls == 0 && ps_calls == 0, "C02 null literal"); VF_WITNESS("null"); }
    else if (lit(content, off, "false", 5)) { VF_AP(2, ok && item.type == cJSON_False && buf.offset == off + 5 && sub_calls == 0 && ps_calls == 0, "C02 false literal"); }
    else if (lit(content, off, "true", 4)) { VF_AP(2, ok && item.type == cJSON_True && item.valueint == 1 && buf.offset == off + 4 && sub_calls == 0 && ps_calls == 0, "C02 true literal"); }
    else if (off < M && first == '"') { VF_AP(2, ps_calls == 1 && ps_off[0] == off && ps_item[0] == &item && ok == ps_result[0] && sub_calls == 0, "C02 a quote dispatches to the string parser at the same offset and its result is returned"); VF_WITNESS("string"); }
    else if (off < M && (first == '-' || (first >= '0' && first <= '9'))) { VF_AP(2, sub_calls == 1 && sub_called == 1 && sub_off == off && sub_item == &item && ok == sub_result && ps_calls == 0, "C02 minus or digit dispatches to the number parser"); }
    else if (off < M && first == '[') { VF_AP(2, sub_calls == 1 && sub_called == 2 && sub_off == off && sub_item == &item && ok == sub_result && ps_calls == 0, "C02 bracket dispatches to the array parser"); }
    else if (off < M && first == '{') { VF_AP(2, sub_calls == 1 && sub_called == 3 && sub_off == off && sub_item == &item && ok == sub_result && ps_calls == 0, "C02 brace dispatches to the object parser"); }
    else {
        VF_AP(3, !ok && sub_calls == 0 && ps_calls == 0, "C03 text that is no literal and starts no value is rejected (misspelt / wrongly cased literals included)");
        VF_AP(10, buf.offset == off, "C10 rejected value leaves the offset at the error position");
        VF_AP(3, item.type == 0, "C03 rejected value leaves the item empty");
        VF_WITNESS("rejected");
    }
    VF_WITNESS("end");
    if (item.valuestring) vf_free(item.valuestring);
    free(content);
    return 0;
}
