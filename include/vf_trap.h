/* vf_trap.h - include directly BEFORE #include of cJSON_Utils.c (which must obtain all memory through cJSON_malloc / cJSON_free):
 * a direct call of the C library allocator from that translation unit is a C14 violation. Undo with vf_untrap.h. */
static void *vf_trap_malloc(size_t n) { VF_ASSERT(0, "C14 cJSON_Utils calls the C library malloc directly instead of the installed hooks"); return vf_malloc(n); }
static void *vf_trap_realloc(void *p, size_t n) { VF_ASSERT(0, "C14 cJSON_Utils calls the C library realloc directly instead of the installed hooks"); return vf_realloc(p, n); }
static void vf_trap_free(void *p) { VF_ASSERT(0, "C14 cJSON_Utils calls the C library free directly instead of the installed hooks"); vf_free(p); }
#define malloc vf_trap_malloc
#define realloc vf_trap_realloc
#define free vf_trap_free
