/* Unit: print_string_ptr on every string of up to TS non-zero bytes (and the NULL input), caller buffer of exactly N bytes,
 * symbolic start offset; then the REAL parse_string reads the produced text back.
 * C09: stays inside the N byte object; true => complete text; enough room => true.   C05: text == strict reference literal
 * (only the legal escapes, \u00xx for other control bytes, everything else verbatim).  C04: parse_string(print_string(s)) == s. */
#ifndef TS
#define TS 3
#endif
#define N (6 * TS + 2 + 9)
#define VF_MAXSZ (6 * TS + 4)
#define VF_INPUTS(X) X(unsigned char, s, [TS + 1]) X(unsigned char, isnull, ) X(unsigned, off, ) X(unsigned char, pre, [N]) \
    X(unsigned char, g_text, [2][26]) X(double, g_val, ) X(double, strtod_val, ) X(unsigned char, dp, )
#include "vf.h"
#include "vf_str.h"
#define VF_MODEL_PRINTF
#include "vf_libc.h"
#include "vf_ref_json.h"
#include "cJSON.c"
#include "vf_tree.h"
#include "vf_ref_print.h"

int main(VF_MAIN_ARGS)
{
    printbuffer p; unsigned char *buf, *in; unsigned char ref[N + 8], dec[N + 8]; size_t o, k, off, declen = 0, consumed = 0, slen; cJSON_bool ok; int isnull, cls;
    VF_INIT(); VF_LIBC_ASSUME();
    VF_ASSUME(IN.off <= N);
    off = IN.off; isnull = IN.isnull & 1;
    IN.s[TS] = 0;
    in = (unsigned char *)vf_exact(IN.s, TS + 1);
    slen = vf_blen(IN.s);
    buf = (unsigned char *)vf_exact(IN.pre, N);
    memset(&p, 0, sizeof p);
    p.buffer = buf; p.length = N; p.offset = off; p.noalloc = 1;

    ok = print_string_ptr(isnull ? 0 : in, &p);

    rp_o = 0; rp_out = ref; rp_cap = sizeof ref; rp_overflow = 0;
    if (isnull) { rp_put('"'); rp_put('"'); } else rp_string(IN.s);
    ref[rp_o] = 0; o = rp_o;
    VF_AP(1, memcmp(in, IN.s, TS + 1) == 0, "C01 printing does not modify the string");
    for (k = 0; k < N; k++) if (k < off) VF_AP(9, buf[k] == IN.pre[k], "C09 bytes in front of the start offset are not touched");
    if (ok) {
        VF_AP(9, off + o + 1 <= N, "C09 true only if text and terminator fit");
        VF_AP(9, p.offset == off, "C09 print_string_ptr leaves the offset to its caller");
        for (k = 0; k <= o && off + k < N; k++) { VF_AP(9, buf[off + k] == ref[k], "C09 complete text"); VF_AP(5, buf[off + k] == ref[k], "C05 string literal equals the strict reference literal"); }
        if (VF_ON(4) && off + o + 1 <= N) {
            /* real parser reads the real printer's output back */
            parse_buffer pb; cJSON item; cJSON_bool pok;
            memset(&pb, 0, sizeof pb); memset(&item, 0, sizeof item);
            pb.content = buf; pb.length = off + o; pb.offset = off; pb.hooks.allocate = vf_malloc; pb.hooks.deallocate = vf_free;
            pok = parse_string(&item, &pb);
            VF_AP(4, pok, "C04 printed string literal parses back");
            if (pok) {
                VF_AP(4, pb.offset == off + o, "C04 the whole literal is consumed");
                VF_AP(4, strlen(item.valuestring) == (isnull ? 0 : slen), "C04 same length after the round trip");
                for (k = 0; k < slen && !isnull; k++) VF_AP(4, ((unsigned char *)item.valuestring)[k] == IN.s[k], "C04 same bytes after the round trip");
                vf_free(item.valuestring);
            }
        }
        VF_WITNESS("true");
    }
    if (off + o + 1 + 5 <= N) VF_AP(9, ok, "C09 succeeds when at least five spare bytes remain behind text and terminator");
    if (VF_ON(5)) {     /* specification sanity: the reference literal is strict JSON and denotes the input */
        cls = ref_string(ref, o, dec, &declen, &consumed);
        VF_AP(5, cls == REF_STRICT && consumed == o && declen == (isnull ? 0 : slen), "C05 reference literal is a strict RFC 8259 string");
        for (k = 0; k < slen && !isnull; k++) VF_AP(5, dec[k] == IN.s[k], "C05 reference literal denotes the input bytes");
    }
    VF_WITNESS("end");
    free(buf); free(in);
    return 0;
}
