/* cJSONUtils_SortObject / SortObjectCaseSensitive on every object with n <= K members, TS symbolic key bytes each
 * (duplicate keys, keys differing only by case, empty keys all occur).  CS=1 case-sensitive, CS=0 case-insensitive.
 * C19: keys non-decreasing under an independent comparator, same member nodes (a permutation), values untouched,
 *      well-formed sibling chain incl. the tail link, second sort changes nothing. */
#ifndef K
#define K 4
#endif
#ifndef CS
#define CS 1
#endif
#define TS 2
#define VF_INPUTS(X) X(unsigned char, n, ) X(unsigned char, key, [K + 1][TS + 1])
#include "vf.h"
#include "vf_str.h"
#include "cJSON_Utils.c"

static int lower(int c) { return (c >= 'A' && c <= 'Z') ? c + 32 : c; }
static int kcmp(const unsigned char *x, const unsigned char *y)
{
    size_t i; for (i = 0; i <= TS; i++) { int p = x[i], q = y[i]; if (!CS) { p = lower(p); q = lower(q); } if (p != q) return p < q ? -1 : 1; if (x[i] == 0) return 0; } return 0;
}

int main(VF_MAIN_ARGS)
{
    cJSON obj, m[K + 1], *c, *last, *order1[K + 1]; unsigned n, i, j, cnt;
    VF_INIT();
    n = IN.n % (K + 1);
    memset(&obj, 0, sizeof obj); memset(m, 0, sizeof m);
    obj.type = cJSON_Object;
    for (i = 0; i < n; i++) { m[i].type = cJSON_Number; m[i].valueint = (int)i + 100; IN.key[i][TS] = 0; m[i].string = (char *)IN.key[i]; if (i) { m[i - 1].next = &m[i]; m[i].prev = &m[i - 1]; } }
    if (n) { obj.child = &m[0]; m[0].prev = &m[n - 1]; }

#if CS
    cJSONUtils_SortObjectCaseSensitive(&obj);
#else
    cJSONUtils_SortObject(&obj);
#endif

    cnt = 0; last = 0;
    for (c = obj.child; c != 0 && cnt <= K; c = c->next) {
        if (cnt > 0) { VF_AP(19, c->prev == last, "C19 each backward link mirrors a forward link"); VF_AP(19, kcmp((unsigned char *)last->string, (unsigned char *)c->string) <= 0, "C19 keys are non-decreasing"); }
        if (cnt < K + 1) order1[cnt] = c;
        last = c; cnt++;
    }
    VF_AP(19, cnt == n && c == 0, "C19 the object keeps exactly its n members and the chain ends in NULL");
    if (n) VF_AP(19, obj.child->prev == last, "C19 the first member's backward link designates the last member"); else VF_AP(19, obj.child == 0, "C19 empty object stays empty");
    for (i = 0; i < n; i++) {
        unsigned seen = 0; cJSON *d; unsigned g = 0;
        for (d = obj.child; d != 0 && g <= K; d = d->next, g++) if (d == &m[i]) seen++;
        VF_AP(19, seen == 1, "C19 every original member node appears exactly once (a permutation)");
        VF_AP(19, m[i].valueint == (int)i + 100 && m[i].type == cJSON_Number && m[i].string == (char *)IN.key[i] && m[i].child == 0, "C19 members keep their key, value and subtree");
    }
    VF_WITNESS("sorted");
#ifdef TWICE
#if CS
    cJSONUtils_SortObjectCaseSensitive(&obj);
#else
    cJSONUtils_SortObject(&obj);
#endif
    j = 0;
    for (c = obj.child; c != 0 && j <= K; c = c->next, j++) if (j < n) VF_AP(19, c == order1[j], "C19 sorting twice equals sorting once");
    VF_AP(19, j == n, "C19 second sort keeps the members");
    if (n) VF_AP(19, obj.child->prev == order1[n - 1], "C19 tail link still correct after the second sort");
#endif
    VF_WITNESS("end");
    return 0;
}
