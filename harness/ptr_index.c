/* Unit: decode_array_index_from_pointer on every token text of <= L bytes (terminated by NUL or by the next '/'):
 * accepted iff the token is "0" or [1-9][0-9]* (no sign, no leading zero, no other character, not empty), and then the index is its
 * decimal value.  Complements pointer.c, whose documents are too small for multi-digit indices to be in range. */
#ifndef L
#define L 4
#endif
#define VF_INPUTS(X) X(unsigned char, t, [L + 2]) X(size_t, bigidx, )
#include "vf.h"
#include "vf_str.h"
#include "vf_strtoul.h"
#include "cJSON_Utils.c"
int main(VF_MAIN_ARGS)
{
    unsigned char *tok; size_t idx = 12345, i, n = 0, want = 0; int valid, r;
    VF_INIT();
    IN.t[L + 1] = 0;
    tok = (unsigned char *)vf_exact(IN.t, L + 2);
    while (tok[n] != 0 && tok[n] != '/') n++;                 /* the token ends at NUL or at the next '/' */
    valid = n >= 1 && !(tok[0] == '0' && n > 1);
    for (i = 0; i < n; i++) { if (tok[i] < '0' || tok[i] > '9') valid = 0; else want = want * 10 + (size_t)(tok[i] - '0'); }
    r = decode_array_index_from_pointer(tok, &idx);
    VF_AP(15, (r != 0) == (valid != 0), "C15 an array index token is accepted iff it is a decimal number without sign, leading zeros or other characters");
    VF_AP(16, (r != 0) == (valid != 0), "C16 an array index token is accepted iff it is a decimal number without sign, leading zeros or other characters");
    if (r && valid) { VF_AP(15, idx == want, "C15 the index is the decimal value of the token"); VF_WITNESS("accepted"); }
    {   /* the element walk: index i selects the i-th element for EVERY size_t value (no truncation), NULL beyond the end */
        cJSON arr, el[3]; size_t want_i = IN.bigidx; cJSON *got; unsigned k;
        memset(&arr, 0, sizeof arr); memset(el, 0, sizeof el); arr.type = cJSON_Array;
        for (k = 0; k < 3; k++) { el[k].type = cJSON_Number; if (k) { el[k - 1].next = &el[k]; el[k].prev = &el[k - 1]; } }
        arr.child = &el[0]; el[0].prev = &el[2];
        got = get_array_item(&arr, want_i);
        VF_AP(15, got == (want_i < 3 ? &el[want_i] : 0), "C15 an index selects exactly that element, every index beyond the end selects nothing (no truncation of large indices)");
    }
    VF_WITNESS("end");
    free(tok);
    return 0;
}
