"""C20 (thread independence) - sufficient frame condition, regenerated from /repo on every run.

1. inventory: every object with static storage duration that is not const, defined in cJSON.c / cJSON_Utils.c (incl. function-local
   statics), read from CBMC's symbol table of the freshly compiled translation units;
2. access map: for each such object, the library functions whose GOTO code writes it, takes its address, or reads it
   (from `cbmc --show-goto-functions`);
3. policy (documented thread-safety conditions of README): global_error may be written by cJSON_ParseWithLengthOpts only and read by
   cJSON_GetErrorPtr only; global_hooks may be written by cJSON_InitHooks only (reads are fine: fixed before threads start);
   cJSON_Version's buffer may be touched by cJSON_Version only. Any other access to a writable static is a finding;
4. a finding is reported as VIOLATION only if a native multi-threaded driver (repro/c20_threads.c, built with -fsanitize=thread, and
   once more without it comparing per-thread results with the sequential results) confirms it; otherwise the check is inconclusive.
The solver-decided part of C20 are the frame obligations (global_error / global_hooks bit-identical across every other API call) that the
C01..C19 harnesses carry under VF_ONLY=20.
"""
import json, os, re, subprocess, tempfile, shutil

ALLOW = {
    'global_error': {'write': {'cJSON_ParseWithLengthOpts'}, 'read': {'cJSON_GetErrorPtr'}, 'addr': set()},
    'global_hooks': {'write': {'cJSON_InitHooks'}, 'read': None, 'addr': None},     # None = any function may
    'cJSON_Version::1::version': {'write': {'cJSON_Version'}, 'read': {'cJSON_Version'}, 'addr': {'cJSON_Version'}},
}

def run(cmd, cwd=None, timeout=600):
    p = subprocess.run(cmd, cwd=cwd, stdout=subprocess.PIPE, stderr=subprocess.PIPE, timeout=timeout)
    return p.returncode, p.stdout.decode('utf8', 'replace'), p.stderr.decode('utf8', 'replace')

def analyse(src_dir, lib_defs):
    statics = {}; access = {}
    for tu in ('cJSON.c', 'cJSON_Utils.c'):
        gb = os.path.join(src_dir, tu + '.c20.gb')
        rc, out, err = run(['goto-cc'] + lib_defs + ['-I', src_dir, os.path.join(src_dir, tu), '-o', gb])
        if rc != 0:
            raise RuntimeError('goto-cc failed for %s: %s' % (tu, err[-500:]))
        rc, out, err = run(['cbmc', gb, '--show-symbol-table', '--json-ui'])
        for m in json.loads(out):
            if isinstance(m, dict) and 'symbolTable' in m:
                for name, s in m['symbolTable'].items():
                    loc = s.get('location', {})
                    if not s.get('isStaticLifetime') or s.get('isType') or not s.get('isLvalue') or s.get('isThreadLocal'):
                        continue
                    if os.path.basename(loc.get('file', '')) not in ('cJSON.c', 'cJSON_Utils.c'):
                        continue
                    if s.get('type', {}).get('id') == 'code' or name.startswith('__CPROVER') or 'string_constant' in name:
                        continue
                    pt = s.get('prettyType', '')
                    if pt.startswith('const ') or ' const' in pt.split('[')[0]:
                        continue
                    statics[name] = {'tu': tu, 'type': pt, 'line': loc.get('line'), 'function': loc.get('function')}
        rc, out, err = run(['cbmc', gb, '--show-goto-functions', '--json-ui'])
        for m in json.loads(out):
            if isinstance(m, dict) and 'functions' in m:
                for f in m['functions']:
                    fn = f['name']
                    if f.get('isInternal') or fn.startswith('__CPROVER'):
                        continue
                    for ins in f.get('instructions', []):
                        txt = ins.get('instruction', '')
                        body = txt.split('\n')[-1].strip() if '\n' in txt else txt
                        body = re.sub(r'^\s*//.*$', '', txt, flags=re.M).strip()
                        for name in list(statics):
                            if statics[name]['tu'] != tu or name not in body:
                                continue
                            if not re.search(r'(?<![\w:])' + re.escape(name) + r'(?![\w:])', body):
                                continue
                            a = access.setdefault(name, {'write': set(), 'read': set(), 'addr': set()})
                            iid = ins.get('instructionId')
                            if iid == 'ASSIGN' and ':=' in body:
                                lhs, rhs = body.split(':=', 1)
                                if re.search(r'(?<![\w:])' + re.escape(name) + r'(?![\w:])', lhs):
                                    a['write'].add(fn)
                                if re.search(r'(?<![\w:])' + re.escape(name) + r'(?![\w:])', rhs):
                                    (a['addr'] if 'address_of(' + name in rhs else a['read']).add(fn)
                            elif iid in ('DECL', 'DEAD'):
                                pass
                            else:
                                (a['addr'] if 'address_of(' + name in body else a['read']).add(fn)
    return statics, access

def findings(statics, access):
    out = []
    for name, info in sorted(statics.items()):
        a = access.get(name, {'write': set(), 'read': set(), 'addr': set()})
        pol = ALLOW.get(name)
        if pol is None:
            if a['write'] or a['addr']:
                out.append({'object': name, 'kind': 'new writable static', 'detail': 'written by %s, address taken by %s' % (sorted(a['write']), sorted(a['addr'])), 'info': info})
            continue
        for k in ('write', 'read', 'addr'):
            if pol[k] is None:
                continue
            extra = a[k] - pol[k]
            if extra:
                out.append({'object': name, 'kind': 'unexpected %s' % k, 'detail': '%s by %s (allowed: %s)' % (k, sorted(extra), sorted(pol[k])), 'info': info})
    return out

def confirm(root, repo_src, scratch):
    """native confirmation: ThreadSanitizer run + result comparison run of the multi-threaded driver"""
    drv = os.path.join(root, 'repro', 'c20_threads.c')
    res = {}
    for tag, cc, flags in (('tsan', 'clang', ['-fsanitize=thread', '-O1', '-g']), ('results', 'gcc', ['-O0', '-g'])):
        exe = os.path.join(scratch, 'c20_' + tag)
        rc, out, err = run([cc] + flags + ['-w', '-DENABLE_LOCALES', '-I', repo_src, drv, os.path.join(repo_src, 'cJSON.c'), os.path.join(repo_src, 'cJSON_Utils.c'), '-lm', '-lpthread', '-o', exe])
        if rc != 0:
            res[tag] = ('build-error', err[-400:]); continue
        try:
            rc, out, err = run((['setarch', 'x86_64', '-R'] if tag == 'tsan' else []) + [exe], timeout=300)
        except subprocess.TimeoutExpired:
            res[tag] = ('timeout', ''); continue
        text = out + err
        if tag == 'tsan':
            races = [b for b in text.split('WARNING: ThreadSanitizer: data race')[1:]]
            bad = [b[:1500] for b in races if 'global_error' not in b]
            res[tag] = ('race', bad[0]) if bad else ('clean', '')
        else:
            res[tag] = ('mismatch', text[-800:]) if rc != 0 else ('clean', '')
    return res
