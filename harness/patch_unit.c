/* Unit: apply_patch (one RFC 6902 operation, case-sensitive) with the callees whose behaviour is decided elsewhere replaced by
 * contract stubs:   get_item_from_pointer (C15: == RFC 6901 resolution)  -> returns a harness-chosen node or NULL and records the pointer text
 *                   compare_json (compare_json unit)                      -> oracle
 *                   cJSON_Duplicate (C11)                                 -> fresh detached node or NULL
 * Real code in the query: apply_patch, decode_patch_operation, detach_path, decode_pointer_inplace, decode_array_index_from_pointer,
 * detach_item_from_array, insert_item_in_array, overwrite_item, cJSONUtils_strdup, get_object_item and (linked, real) the cJSON list API.
 * Document: root (object); "parent" container P (array or object or scalar, symbolic) with n <= 2 children (keys: 1 symbolic byte);
 * operation object {"op","path","value","from"} with symbolic presence / kinds; path and from: <= PL symbolic bytes.
 * OPC (concrete per query): 1 add 2 remove 3 replace 4 move 5 copy 6 test 0 other/invalid text.
 * Spec: transcription of RFC 6902 section 4 relative to what the resolver stub returned. */
#ifndef OPC
#define OPC 1
#endif
#ifndef PL
#define PL 4
#endif
#define KN 2
#define VF_SZ_LIST(X) X(1) X(2) X(3) X(4) X(5) X(6) X(7)
#define VF_INPUTS(X) X(unsigned char, path, [PL + 1]) X(unsigned char, from, [PL + 1]) X(unsigned char, has, ) X(unsigned char, pathkind, ) X(unsigned char, fromkind, ) X(unsigned char, opkind, ) \
    X(unsigned char, pkind, ) X(unsigned char, n, ) X(unsigned char, key, [KN][2]) X(unsigned char, gp_sel, [4]) X(unsigned char, cmp, ) X(unsigned char, dup_ok, ) X(unsigned char, fail_at, ) X(unsigned char, optext, [8])
#include "vf.h"
#include "vf_str.h"
#include "vf_mem.h"
#include "vf_strtoul.h"

static unsigned dup_calls; static const cJSON *dup_arg; static cJSON *dup_ret;
static cJSON *vf_stub_duplicate(const cJSON *item, cJSON_bool recurse)
{
    cJSON *n;
    dup_calls++; dup_arg = item;
    VF_ASSERT(item != 0 && recurse, "STUB cJSON_Duplicate precondition: recursive copy of an existing value");
    if (!(IN.dup_ok & 1)) return 0;
    n = (cJSON *)cJSON_malloc(sizeof(cJSON));
    if (n == 0) return 0;
    memset(n, 0, sizeof *n); n->type = item->type & 0xFF; n->valueint = 777;
    if (item->string) { n->string = (char *)cJSON_malloc(2); if (n->string == 0) { cJSON_free(n); return 0; } n->string[0] = item->string[0]; n->string[1] = 0; }   /* duplicate copies the key */
    dup_ret = n;
    return n;
}
#define cJSON_Duplicate vf_stub_duplicate
#ifndef VF_LIB
#define VF_LIB "cJSON_Utils.c"
#endif
#include "vf_trap.h"
#include VF_LIB
#include "vf_untrap.h"
#undef cJSON_Duplicate

static cJSON root, scalar, P; static int pkx; static unsigned gp_calls; static cJSON *gp_ret[4]; static cJSON *kidp[KN]; static unsigned char kkey[KN]; static unsigned n;
static char gp_text[4][PL + 2];
static cJSON *get_item_from_pointer(cJSON * const object, const char *pointer, const cJSON_bool case_sensitive)
{
    unsigned k = gp_calls, i; cJSON *r = 0;
    VF_BOUND(k < 4, "more pointer resolutions than expected"); VF_ASSUME(k < 4);
    gp_calls++;
    VF_ASSERT(object == &root && case_sensitive, "STUB get_item_from_pointer: resolves in the document, case-sensitively");
    if (pointer == 0) { gp_text[k][0] = 0; gp_ret[k] = 0; return 0; }
    for (i = 0; i <= PL && pointer[i]; i++) gp_text[k][i] = pointer[i];
    gp_text[k][i] = 0;
    switch (IN.gp_sel[k] % 6) { case 0: r = 0; break; case 1: r = &P; break; case 2: r = (n > 0) ? kidp[0] : 0; break; case 3: r = (n > 1) ? kidp[1] : 0; break; case 4: r = &scalar; break; default: r = &root; break; }
    if (r != 0 && r != &P && r != &scalar && r != &root) { cJSON *c; int in = 0; unsigned g = 0; for (c = P.child; c != 0 && g <= KN + 1; c = c->next, g++) if (c == r) in = 1; if (!in) r = 0; }   /* a resolver never returns a node that has been removed */
    gp_ret[k] = r;
    return r;
}
static unsigned cmp_calls; static cJSON *cmp_a, *cmp_b;
static cJSON_bool compare_json(cJSON *a, cJSON *b, const cJSON_bool case_sensitive)
{
    cmp_calls++; cmp_a = a; cmp_b = b;
    VF_ASSERT(case_sensitive, "STUB compare_json: case-sensitive");
    if (a == 0 || b == 0) return 0;
    return IN.cmp & 1;
}

static cJSON op, m_op, m_path, m_value, m_from;
static int isdig(unsigned char c) { return c >= '0' && c <= '9'; }
/* RFC 6901 unescape of the last token of p (after the last '/'); returns 0 if p has no '/' */
static int last_token(const unsigned char *p, unsigned char *tok, size_t *parent_len)
{
    size_t i, last = PL + 1, o = 0;
    for (i = 0; i <= PL && p[i]; i++) if (p[i] == '/') last = i;
    if (last == PL + 1) return 0;
    *parent_len = last;
    for (i = last + 1; i <= PL && p[i]; i++) {
        if (p[i] == '~' && p[i + 1] == '0') { tok[o++] = '~'; i++; }
        else if (p[i] == '~' && p[i + 1] == '1') { tok[o++] = '/'; i++; }
        else if (p[i] == '~') return -1;                  /* invalid escape: outside the conformance claim */
        else tok[o++] = p[i];
    }
    tok[o] = 0;
    return 1;
}
static int index_token(const unsigned char *t, unsigned *idx)
{
    size_t i = 0; unsigned v = 0;
    if (t[0] == 0) return 0;
    if (t[0] == '0' && t[1] != 0) return 0;
    for (i = 0; t[i]; i++) { if (!isdig(t[i])) return 0; v = v * 10 + (unsigned)(t[i] - '0'); }
    *idx = v; return 1;
}
/* members carry 1-byte keys (or the empty key when the byte is 0): a token matches iff it is that same string */
static int find_member(const unsigned char *t) { unsigned i; for (i = 0; i < n; i++) if (kkey[i] == t[0] && (t[0] == 0 || t[1] == 0)) return (int)i; return -1; }


/* ---- list model of P's children: node pointers and their keys */
static cJSON *xp[KN + 3]; static unsigned char ekey[KN + 3][PL + 2]; static unsigned nexp;
static int spec_find(const unsigned char *t) { unsigned i; for (i = 0; i < nexp; i++) if (strcmp((const char *)ekey[i], (const char *)t) == 0) return (int)i; return -1; }
static void spec_remove_at(unsigned k) { unsigned i; for (i = k; i + 1 < nexp; i++) { xp[i] = xp[i + 1]; memcpy(ekey[i], ekey[i + 1], PL + 2); } nexp--; }
static void spec_insert_at(unsigned k, cJSON *v, const unsigned char *key) { unsigned i; for (i = nexp; i > k; i--) { xp[i] = xp[i - 1]; memcpy(ekey[i], ekey[i - 1], PL + 2); } xp[k] = v; strcpy((char *)ekey[k], (const char *)key); nexp++; }
/* what the resolver stub answers for its k-th call, computed from the MODEL (independent of whether the code under test called it) */
static cJSON *spec_resolve(unsigned k)
{
    unsigned sel, i; cJSON *r = 0;
    if (k >= 4) return 0;
    sel = IN.gp_sel[k] % 6;
    if (sel == 1) r = &P; else if (sel == 4) r = &scalar; else if (sel == 5) r = &root;
    else if (sel == 2 || sel == 3) { cJSON *w = (sel - 2 < n) ? kidp[sel - 2] : 0; for (i = 0; i < nexp; i++) if (w != 0 && xp[i] == w) r = w; }
    return r;
}
/* removal of the value at pointer p: 1 removed (node in *out), 0 refused, -1 outside the conformance claim */
static int spec_remove(const unsigned char *p, unsigned *ci, cJSON **out)
{
    unsigned char t[PL + 2]; size_t pl = 0; unsigned idx = 0; int lt = last_token(p, t, &pl), hit = -1; cJSON *par;
    if (lt < 0) return -1;
    if (lt == 0) return 0;                  /* no '/' at all: nothing is resolved, nothing detached */
    par = spec_resolve(*ci); (*ci)++;
    if (par != &P) return 0;                /* parent missing, a scalar, or a container without the member (root / leaf have no children here) */
    if (pkx == cJSON_Array) { if (index_token(t, &idx) && idx < nexp) hit = (int)idx; }
    else if (pkx == cJSON_Object) hit = spec_find(t);
    if (hit < 0) return 0;
    *out = xp[hit]; spec_remove_at((unsigned)hit);
    return 1;
}

#define VF_FL(b) ((((b) & 2) ? cJSON_StringIsConst : 0) | (((b) & 4) ? cJSON_IsReference : 0))   /* ownership flag bits: they never change what a node means */
int main(VF_MAIN_ARGS)
{
    cJSON_Hooks h; int status; unsigned i, cnt; cJSON *c, *last; long live0; static char pathbuf[PL + 1], frombuf[PL + 1], optxt[8]; cJSON *valnode = 0;
    int pk; unsigned char tok[PL + 2]; size_t plen = 0; int lt;
    VF_INIT();
    h.malloc_fn = vf_malloc; h.free_fn = vf_free; cJSON_InitHooks(&h);
    memset(&root, 0, sizeof root); memset(&P, 0, sizeof P); memset(&scalar, 0, sizeof scalar);
    root.type = cJSON_Object; scalar.type = cJSON_Number;
    pk = (IN.pkind % 3 == 0) ? cJSON_Array : (IN.pkind % 3 == 1) ? cJSON_Object : cJSON_String;
    P.type = pk; pkx = pk; n = (pk == cJSON_String) ? 0 : IN.n % (KN + 1);
    /* children of P are heap nodes (they may be deleted by the operation) */
    {
        cJSON *prev = 0;
        for (i = 0; i < n; i++) {
            cJSON *k = (cJSON *)vf_own(sizeof(cJSON)); char *ks = (char *)vf_own(2);
            memset(k, 0, sizeof *k); k->type = cJSON_True; memcpy(ks, IN.key[i], 1); ks[1] = 0; kkey[i] = IN.key[i][0]; k->string = ks; kidp[i] = k;
            if (prev) { prev->next = k; k->prev = prev; } else P.child = k;
            prev = k; xp[i] = k; ekey[i][0] = IN.key[i][0]; ekey[i][1] = 0;
        }
        if (n) P.child->prev = prev;
        if (n == 2 && pk == cJSON_Object) VF_ASSUME(IN.key[0][0] != IN.key[1][0]);
    }
    nexp = n;
    /* ---- the operation object */
    memset(&op, 0, sizeof op); op.type = cJSON_Object | VF_FL(IN.has >> 4);
    memset(&m_op, 0, sizeof m_op); memset(&m_path, 0, sizeof m_path); memset(&m_value, 0, sizeof m_value); memset(&m_from, 0, sizeof m_from);
    {
        static const char *names[7] = { "xx", "add", "remove", "replace", "move", "copy", "test" };
        cJSON *chain[4]; unsigned cn = 0, j;
        strcpy(optxt, names[OPC]);
        if (OPC == 0) { memcpy(optxt, IN.optext, 7); optxt[7] = 0; VF_ASSUME(strcmp(optxt, "add") != 0 && strcmp(optxt, "remove") != 0 && strcmp(optxt, "replace") != 0 && strcmp(optxt, "move") != 0 && strcmp(optxt, "copy") != 0 && strcmp(optxt, "test") != 0); }   /* every other text, e.g. "added", "Add", "" */
        m_op.type = ((IN.opkind & 1) ? cJSON_Number : cJSON_String) | VF_FL(IN.opkind); m_op.valuestring = optxt; m_op.string = (char *)"op";
        memcpy(pathbuf, IN.path, PL); pathbuf[PL] = 0; memcpy(frombuf, IN.from, PL); frombuf[PL] = 0;
        m_path.type = ((IN.pathkind & 1) ? cJSON_Number : cJSON_String) | VF_FL(IN.pathkind); m_path.valuestring = (IN.pathkind & 1) ? (char *)0 : pathbuf; m_path.string = (char *)"path";
        m_from.type = ((IN.fromkind & 1) ? cJSON_Number : cJSON_String) | VF_FL(IN.fromkind); m_from.valuestring = (IN.fromkind & 1) ? (char *)0 : frombuf; m_from.string = (char *)"from";
        m_value.type = cJSON_False; m_value.string = (char *)"value";
        if (IN.has & 1) chain[cn++] = &m_op; if (IN.has & 2) chain[cn++] = &m_path; if (IN.has & 4) chain[cn++] = &m_value; if (IN.has & 8) chain[cn++] = &m_from;
        for (j = 0; j < cn; j++) { if (j) { chain[j - 1]->next = chain[j]; chain[j]->prev = chain[j - 1]; } }
        if (cn) { op.child = chain[0]; chain[0]->prev = chain[cn - 1]; }
    }
    live0 = vf_live;
    vf_fail_at = 0;      /* allocation failure inside patch application is outside C16 (inputs) and C08 (core API): not injected here */

    status = apply_patch(&root, &op, 1);

    /* ---------------- specification: RFC 6902 section 4, relative to what the resolver stub returned */
    {
        int has_op = (IN.has & 1) && !(IN.opkind & 1), has_path = (IN.has & 2) && !(IN.pathkind & 1), has_value = (IN.has & 4) != 0, has_from = (IN.has & 8) && !(IN.fromkind & 1);
        int ok = 1, defined = 1, doc_defined = 1; unsigned ci = 0; cJSON *value = 0;
        if (!has_path || !has_op || OPC == 0) ok = 0;
        else if (OPC == 6) {
            ok = (spec_resolve(0) != 0 && has_value && (IN.cmp & 1)) ? 1 : 0;
            VF_AP(16, cmp_calls == 1 && cmp_a == gp_ret[0] && (cmp_b == (has_value ? &m_value : 0)), "C16 test compares the value at path with the \"value\" member");
            VF_AP(16, strcmp(gp_text[0], pathbuf) == 0, "C16 test resolves exactly the given path");
        }
        else if (pathbuf[0] == 0) {
            doc_defined = 0;
            if (OPC == 2) defined = 0;                                   /* remove of the whole document: left open by the property */
            else if (OPC == 1 || OPC == 3) {
                ok = (has_value && (IN.dup_ok & 1)) ? 1 : 0;
                if (status == 0) VF_AP(16, dup_calls == 1 && dup_arg == &m_value && root.valueint == 777 && root.string == 0 && root.type == (m_value.type & 0xFF), "C16 add/replace at \"\" replaces the whole document by a copy of the value");
            } else if (!has_from) ok = 0;
            else if (OPC == 5) ok = (spec_resolve(0) != 0 && (IN.dup_ok & 1)) ? 1 : 0;      /* copy to "": the value at from becomes the document */
            else { cJSON *moved = 0; int r = spec_remove((unsigned char *)frombuf, &ci, &moved); if (r < 0) defined = 0; else ok = r; }   /* move to "" */
        }
        else {
            if (OPC == 2 || OPC == 3) { int r = spec_remove((unsigned char *)pathbuf, &ci, &value); if (r < 0) defined = 0; else if (!r) ok = 0; value = 0; }
            if (ok && defined && OPC != 2) {
                if (OPC == 4 || OPC == 5) {
                    if (!has_from) ok = 0;
                    else if (OPC == 4) { int r = spec_remove((unsigned char *)frombuf, &ci, &value); if (r < 0) defined = 0; else if (!r) ok = 0; }
                    else { cJSON *src = spec_resolve(ci); if (ci < gp_calls) VF_AP(16, strcmp(gp_text[ci], frombuf) == 0, "C16 copy resolves exactly the \"from\" pointer"); ci++; if (src == 0 || !(IN.dup_ok & 1)) ok = 0; else { value = dup_ret; VF_AP(16, dup_arg == src, "C16 copy duplicates the value found at \"from\""); } }
                } else { if (!has_value || !(IN.dup_ok & 1)) ok = 0; else { value = dup_ret; VF_AP(16, dup_arg == &m_value, "C16 add/replace duplicate the \"value\" member"); } }
            }
            if (ok && defined && OPC != 2) {
                /* insertion of value at path */
                lt = last_token((unsigned char *)pathbuf, tok, &plen);
                if (lt < 0) defined = 0;
                else if (lt == 0) ok = 0;
                else {
                    cJSON *par = spec_resolve(ci); unsigned idx = 0;
                    if (ci < gp_calls) VF_AP(16, strncmp(gp_text[ci], pathbuf, plen) == 0 && gp_text[ci][plen] == 0, "C16 the value is inserted below the parent pointer (path without its last token)");
                    ci++;
                    if (par == &P && pk == cJSON_Array) {
                        if (tok[0] == '-' && tok[1] == 0) spec_insert_at(nexp, value, (unsigned char *)"");
                        else if (index_token(tok, &idx) && idx <= nexp) spec_insert_at(idx, value, (unsigned char *)"");
                        else ok = 0;
                    } else if (par == &P && pk == cJSON_Object) {
                        int hit = spec_find(tok);
                        if (hit >= 0) spec_remove_at((unsigned)hit);
                        spec_insert_at(nexp, value, tok);
                    } else if (par == &root) doc_defined = 0;            /* member added to the root itself: allowed, not modelled */
                    else ok = 0;                                         /* parent missing or not a container */
                }
            }
        }
        if (defined && ok) { VF_AP(16, status == 0, "C16 an operation that RFC 6902 evaluation accepts returns 0"); VF_WITNESS("accepted"); }
        if (defined && !ok) { VF_AP(16, status != 0, "C16 an invalid or failing operation returns non-zero"); VF_WITNESS("refused"); }
        /* ---- the parent container afterwards: always well-formed; equal to the model when the outcome is specified */
        cnt = 0; last = 0;
        for (c = P.child; c != 0 && cnt <= KN + 1; c = c->next) { if (cnt > 0) VF_AP(16, c->prev == last, "C16 document stays well-formed: backward links mirror forward links"); last = c; cnt++; }
        VF_AP(16, c == 0, "C16 document stays well-formed: chain ends");
        if (P.child) VF_AP(16, P.child->prev == last, "C16 document stays well-formed: the first child's backward link designates the last child");
        if (defined && doc_defined) {
            VF_AP(16, cnt == nexp, "C16 the container holds what RFC 6902 evaluation leaves in it (count)");
            cnt = 0; for (c = P.child; c != 0 && cnt < nexp; c = c->next) {
                VF_AP(16, c == xp[cnt], "C16 the container holds what RFC 6902 evaluation leaves in it (order and identity)");
                if (pk == cJSON_Object && ok) VF_AP(16, c->string != 0 && strcmp(c->string, (char *)ekey[cnt]) == 0, "C16 member keys are the RFC 6901-decoded tokens");
                cnt++;
            }
        }
        /* ---- ledger: nothing leaks and nothing is released twice, whatever the patch looked like */
        {
            long want = 0; cnt = 0;
            for (c = P.child; c != 0 && cnt <= KN + 1; c = c->next, cnt++) { want += 1; if (c->string) want += 1; }
            cnt = 0; for (c = root.child; c != 0 && cnt <= KN + 1; c = c->next, cnt++) { want += 1; if (c->string) want += 1; }      /* members the operation put directly into the root */
            if (!(pathbuf[0] == 0 && has_path && has_op)) { VF_AP(16, vf_live == want, "C16 no leak and no double release for any patch value (live blocks == blocks owned by the document)"); VF_AP(14, vf_live == want, "C14 every block the patch code releases through the hooks was obtained through the hooks (ledger balanced)"); }
        }
    }
    VF_WITNESS("end");
    return 0;
}
