/* Native reproducers for the genuine defects found on the pinned tree (DESIGN.md §7).
 * usage: defects <n>   exit 0 = behaves per property, exit 1 = defect present.
 * build: gcc -fsanitize=address,undefined -I/repo defects.c /repo/cJSON.c /repo/cJSON_Utils.c -lm */
#include <stdio.h>
#include <stdlib.h>
#include <string.h>
#include <float.h>
#include <math.h>
#include "cJSON.h"
#include "cJSON_Utils.h"

static int fail_at = -1, nreq = 0, live = 0;
static void *fm(size_t n) { if (++nreq == fail_at) return NULL; live++; return malloc(n); }
static void ff(void *p) { if (p) live--; free(p); }
static void hooks(void) { cJSON_Hooks h = { fm, ff }; cJSON_InitHooks(&h); }

static int d1(void) { /* finite vs inf compare equal; DBL_MAX round trip */
    cJSON *a = cJSON_CreateNumber(1.0), *b = cJSON_CreateNumber(INFINITY);
    int bad = cJSON_Compare(a, b, 1);
    cJSON *m = cJSON_CreateNumber(DBL_MAX); char *s = cJSON_PrintUnformatted(m);
    cJSON *r = cJSON_Parse(s);
    printf("cmp(1,inf)=%d print(DBL_MAX)=%s reread=%g\n", bad, s, r ? r->valuedouble : -1.0);
    bad |= !(r && r->valuedouble == DBL_MAX);
    return bad; }
static int d2(void) { /* replace by key with key aliasing replacement->string */
    cJSON *o = cJSON_Parse("{\"k\":1}"); cJSON *r = cJSON_CreateNumber(2);
    cJSON *tmp = cJSON_CreateObject(); cJSON_AddItemToObject(tmp, "k", r); cJSON_DetachItemViaPointer(tmp, r);
    int ok = cJSON_ReplaceItemInObject(o, r->string, r); /* ASan: use after free */
    char *s = cJSON_PrintUnformatted(o); printf("%d %s\n", ok, s);
    return !(ok && strcmp(s, "{\"k\":2}") == 0); }
static int d3(void) { /* reference leak on key copy failure */
    hooks(); cJSON *o = cJSON_CreateObject(); cJSON *t = cJSON_CreateNumber(1);
    int before = live; nreq = 0; fail_at = 2;
    int ok = cJSON_AddItemReferenceToObject(o, "key", t); fail_at = -1;
    printf("ok=%d live delta=%d\n", ok, live - before);
    return !(ok == 0 && live == before); }
static int d4(void) { /* minify escaped backslash */
    char s[] = "{\"a\\\\\" : 1, \"b c\" : 2}"; cJSON_Minify(s); printf("%s\n", s);
    return strcmp(s, "{\"a\\\\\":1,\"b c\":2}") != 0; }
static int d5(void) { cJSON *r = cJSON_Parse("\"\\uZZZZ\""); printf("%p\n", (void*)r); return r != NULL; }
static int d6(void) { const char b[4] = { (char)0xEF, (char)0xBB, (char)0xBF, '1' };
    cJSON *r = cJSON_ParseWithLength(b, 4); printf("%p\n", (void*)r); return r == NULL; }
static int d7(void) { cJSON *a = cJSON_CreateArray(); int i; for (i = 0; i < 30; i++) cJSON_AddItemToArray(a, cJSON_CreateNumber(i));
    cJSON *r = cJSONUtils_GetPointerCaseSensitive(a, "/1A"); printf("%p\n", (void*)r); return r != NULL; }
static int d8(void) { cJSON *o = cJSON_Parse("{\"abc\":1}"); cJSON *r = cJSONUtils_GetPointerCaseSensitive(o, "abc"); return r != NULL; }
static int d9(void) { cJSON *o = cJSON_Parse("{}"); cJSON *p = cJSON_Parse("[{\"op\":\"add\",\"path\":\"/x~1y\",\"value\":1}]");
    int st = cJSONUtils_ApplyPatchesCaseSensitive(o, p); char *s = cJSON_PrintUnformatted(o); printf("%d %s\n", st, s);
    return !(st == 0 && strcmp(s, "{\"x/y\":1}") == 0); }
static int d10(void) { cJSON *o = cJSON_Parse("{\"b\":1,\"a\":2}"); cJSONUtils_SortObjectCaseSensitive(o);
    cJSON_AddItemToObject(o, "c", cJSON_CreateNumber(3)); char *s = cJSON_PrintUnformatted(o); printf("%s\n", s);
    return strcmp(s, "{\"a\":2,\"b\":1,\"c\":3}") != 0; }
static int d11(void) { cJSON *o = cJSON_Parse("{\"a\":1}"); cJSON *p = cJSON_Parse("[{\"op\":\"move\",\"path\":\"/b\",\"from\":1}]");
    int st = cJSONUtils_ApplyPatchesCaseSensitive(o, p); printf("%d\n", st); return st == 0; }
static int d12(void) { cJSON *o = cJSON_Parse("{\"a\":1}"); cJSON *p = cJSON_Parse("[{\"op\":\"remove\",\"path\":\"/A\"}]");
    int st = cJSONUtils_ApplyPatchesCaseSensitive(o, p); char *s = cJSON_PrintUnformatted(o); printf("%d %s\n", st, s);
    return !(st != 0 && strcmp(s, "{\"a\":1}") == 0); }
static int d13(void) { cJSON *o = cJSON_Parse("{\"a\":[1]}"); cJSON *p = cJSON_Parse("[{\"op\":\"copy\",\"path\":\"\",\"from\":\"/a\"}]");
    int st = cJSONUtils_ApplyPatchesCaseSensitive(o, p); char *s = cJSON_PrintUnformatted(o); printf("%d %s\n", st, s);
    return !(st == 0 && strcmp(s, "[1]") == 0); }
static int d14(void) { cJSON *f = cJSON_Parse("{\"o\":{\"a\":1,\"B\":2}}"), *t = cJSON_Parse("{\"o\":{\"B\":2}}");
    cJSON *p = cJSONUtils_GenerateMergePatchCaseSensitive(f, t); char *ps = cJSON_PrintUnformatted(p);
    cJSON *f2 = cJSON_Parse("{\"o\":{\"a\":1,\"B\":2}}"); f2 = cJSONUtils_MergePatchCaseSensitive(f2, p);
    char *s = cJSON_PrintUnformatted(f2); printf("%s -> %s\n", ps, s); return !cJSON_Compare(f2, t, 1); }
static int d15(void) { cJSON *o = cJSON_Parse("{\"a\":1,\"a\":2}"); cJSONUtils_SortObjectCaseSensitive(o);
    char *s1 = cJSON_PrintUnformatted(o); cJSONUtils_SortObjectCaseSensitive(o); char *s2 = cJSON_PrintUnformatted(o);
    printf("%s %s\n", s1, s2); return strcmp(s1, s2) != 0; }
static int d16(void) { cJSON *o = cJSON_Parse("{\"o\":{\"b\":1,\"a\":2}}");
    cJSON *p = cJSON_Parse("[{\"op\":\"test\",\"path\":\"/o\",\"value\":{\"a\":2,\"b\":1}},{\"op\":\"add\",\"path\":\"/o/c\",\"value\":3}]");
    int st = cJSONUtils_ApplyPatchesCaseSensitive(o, p); char *s = cJSON_PrintUnformatted(o); printf("%d %s\n", st, s);
    return !(st == 0 && strstr(s, "\"c\":3")); }
static int d17(void) { cJSON *a = cJSON_Parse("[1,2]"); int ok = cJSON_InsertItemInArray(a, 0, a); printf("%d\n", ok); return ok != 0; }

static int d18(void) { cJSON *a = cJSON_Parse("[1,2]"); cJSON *r = cJSONUtils_GetPointerCaseSensitive(a, "/"); printf("%p\n", (void*)r); return r != NULL; }
static int d19(void) { cJSON *o = cJSON_Parse("[1,2]"); cJSON *p = cJSON_Parse("[{\"op\":\"add\",\"path\":\"/1~1\",\"value\":9}]");
    int st = cJSONUtils_ApplyPatchesCaseSensitive(o, p); char *s = cJSON_PrintUnformatted(o); printf("%d %s\n", st, s); return st == 0; }

int main(int argc, char **argv) {
    int n = argc > 1 ? atoi(argv[1]) : 0;
    int (*t[])(void) = { 0, d1, d2, d3, d4, d5, d6, d7, d8, d9, d10, d11, d12, d13, d14, d15, d16, d17, d18, d19 };
    if (n < 1 || n > 19) return 2;
    return t[n]();
}
