/* One inductive step of every public edit / query function from an arbitrary well-formed container:
 * parent = array or object with n <= K children (n, kinds, key bytes, string bytes, ownership flags symbolic),
 * x = a fresh detached item (optionally carrying its own owned or constant key), arguments symbolic incl. the refusal cases.
 * After the call:  C06 return flag == list/map model, child sequence == model sequence, sibling chain invariant (WF);
 *                  C07 everything is then deleted through the library and the allocator ledger must balance (CBMC also
 *                      checks double free / use after free), borrowed memory (constant keys, referenced strings) is intact;
 *                  C08 with a symbolic failing allocation request: documented failure value, ledger and containers unchanged.
 * WF + one step from every WF state covers call histories of any length whose containers stay within K. */
#ifndef OP
#define OP 1
#endif
#ifndef K
#define K 3
#endif
#define TD 1
#define TK K
#ifndef TS
#define TS 2
#endif
#define VF_FLAGS (VF_FLAG_REF | VF_FLAG_CONSTKEY)
#ifndef KEYALIAS
#define KEYALIAS 1
#endif
#define VF_KINDS 0x1F           /* children are scalars: null false true number string */
#include "vf_tree.h"
#define VF_INPUTS(X) VF_TREE_INPUTS(X) X(unsigned char, pkind, ) X(unsigned char, mode, ) X(int, which, ) X(unsigned char, idx, ) \
    X(unsigned char, kbytes, [TS + 1]) X(unsigned char, ksel, ) X(unsigned char, xkind, ) X(unsigned char, xkey, [TS + 1]) X(unsigned char, xkeymode, ) \
    X(unsigned char, xstr, [TS + 1]) X(unsigned char, fail_at, ) X(double, num, ) X(unsigned char, nstr, [TS + 3]) X(unsigned char, variant, )
#define VF_MAXSZ 15
#include "vf.h"
#include "vf_str.h"
#include "vf_tree.h"
#include "vf_mem.h"
#define malloc vf_malloc
#define free vf_free
#define realloc vf_realloc
#include "cJSON.c"
#undef malloc
#undef free
#undef realloc
#include "vf_frame.h"

static vf_tree T; static cJSON *parent, *x; static unsigned n; static cJSON *kid[K + 2];
static cJSON *expect[K + 3]; static unsigned nexp;
static char const_xkey[TS + 1]; static char const_key_arg[TS + 1]; static char ref_buf[TS + 1]; static char ref_big[2 * (TS + 3)]; static cJSON *extra;   /* a detached item handed back to the caller */

#define INJECTED (vf_fail_at != 0 && vf_nreq >= vf_fail_at)      /* the refused request was actually reached */
static int lower(int c) { return (c >= 'A' && c <= 'Z') ? c + 32 : c; }
static int eq_cs(const char *a, const char *b) { size_t i; for (i = 0; i <= TS; i++) { if (a[i] != b[i]) return 0; if (a[i] == 0) return 1; } return 1; }
static int uc(const char *p, size_t i) { return ((const unsigned char *)p)[i]; }
static int eq_ci(const char *a, const char *b) { size_t i; for (i = 0; i <= TS; i++) { if (lower(uc(a, i)) != lower(uc(b, i))) return 0; if (a[i] == 0) return 1; } return 1; }
static cJSON *find_key_ptr(const char *key, int cs) { unsigned i; for (i = 0; i < n; i++) if (kid[i]->string && (cs ? eq_cs(kid[i]->string, key) : eq_ci(kid[i]->string, key))) return kid[i]; return 0; }
static int find_key(const char *key, int cs) { unsigned i; for (i = 0; i < n; i++) if (kid[i]->string && (cs ? eq_cs(kid[i]->string, key) : eq_ci(kid[i]->string, key))) return (int)i; return -1; }

/* C06 structural check of the parent's child list against the model sequence */
static void check_list(void)
{
    cJSON *c = parent->child, *last = 0; unsigned i = 0;
    for (i = 0; i < nexp; i++) {
        VF_AP(6, c != 0 && c == expect[i], "C06 container holds exactly the model's items in the model's order");
        if (c == 0) return;
        if (i > 0) VF_AP(6, c->prev == last, "C06 each backward link mirrors a forward link");
        last = c; c = c->next;
    }
    VF_AP(6, c == 0, "C06 forward links end in NULL after the last model item");
    if (nexp > 0) VF_AP(6, parent->child->prev == last, "C06 the first child's backward link designates the last child");
    else VF_AP(6, parent->child == 0, "C06 empty container has no child");
}
static void expect_unchanged(void) { unsigned i; nexp = n; for (i = 0; i < n; i++) expect[i] = kid[i]; }
static void expect_without(unsigned k) { unsigned i; nexp = 0; for (i = 0; i < n; i++) if (i != k) expect[nexp++] = kid[i]; }
static void expect_append(cJSON *it) { expect_unchanged(); expect[nexp++] = it; }
static void expect_insert(unsigned k, cJSON *it) { unsigned i; nexp = 0; for (i = 0; i < n; i++) { if (i == k) expect[nexp++] = it; expect[nexp++] = kid[i]; } }
static void expect_replace(unsigned k, cJSON *it) { expect_unchanged(); expect[k] = it; }

static cJSON *make_x(void)
{
    cJSON *it = (cJSON *)vf_own(sizeof(cJSON)); int kind; memset(it, 0, sizeof *it);
    switch (IN.xkind % 4) { case 0: kind = cJSON_Number; it->valueint = 7; it->valuedouble = 7; break; case 1: kind = cJSON_Array; break; case 2: kind = cJSON_Object; break;
        default: kind = cJSON_String; { char *s = (char *)vf_own(TS + 1); memcpy(s, IN.xstr, TS); s[TS] = 0; it->valuestring = s; } break; }
    it->type = kind;
    if ((IN.xkeymode % 3) == 1) { char *k = (char *)vf_own(TS + 1); memcpy(k, IN.xkey, TS); k[TS] = 0; it->string = k; }
    else if ((IN.xkeymode % 3) == 2) { memcpy(const_xkey, IN.xkey, TS); const_xkey[TS] = 0; it->string = const_xkey; it->type |= cJSON_StringIsConst; }
    return it;
}
/* key argument: fresh bytes, or aliasing x's own key, or (for replace) the replaced member's key */
static const char *key_arg(int allow_child, unsigned k)
{
    unsigned sel = IN.ksel % 3;
    if (sel == 1 && x && x->string && (OP != 3 || (x->type & cJSON_StringIsConst))) return x->string;   /* a heap key owned by x cannot be passed as a CONSTANT key */
    if (sel == 2 && allow_child && k < n && kid[k]->string) return kid[k]->string;
    memcpy(const_key_arg, IN.kbytes, TS); const_key_arg[TS] = 0;
    return const_key_arg;
}

int main(VF_MAIN_ARGS)
{
    unsigned i; int obj; long live0; char keycopy[TS + 1]; int xtype0 = 0; char *xstring0 = 0;
    VF_INIT();
    VF_TREE_BIND(T, t_);
    obj = (OP == 2 || OP == 3 || OP == 5 || (OP >= 10 && OP <= 13) || OP == 16 || OP == 17 || OP == 20) ? 1 : (IN.pkind & 1);
    IN.t_kind[0] = obj ? 6 : 5;
    parent = vf_build(&T);
    n = vf_tnk(&T, 0);
    for (i = 0; i < n; i++) kid[i] = T.node[1 + i];
    if (!obj) for (i = 0; i < n; i++) { /* array members normally have no key: drop it unless borrowed */ if (!(kid[i]->type & cJSON_StringIsConst)) { vf_free(kid[i]->string); kid[i]->string = 0; } }
    x = make_x();
    if (x) { xtype0 = x->type; xstring0 = x->string; }
    live0 = vf_live;
    vf_fail_at = IN.fail_at ? vf_nreq + IN.fail_at : 0;
    expect_unchanged();
    VF_FRAME_BEGIN();

#if OP == 1      /* cJSON_AddItemToArray */
    {
        cJSON *arr = parent, *it = x; cJSON_bool r;
        if ((IN.mode % 4) == 1) it = 0; else if ((IN.mode % 4) == 2) it = parent; else if ((IN.mode % 4) == 3) arr = 0;
        r = cJSON_AddItemToArray(arr, it);
        if ((IN.mode % 4) == 0) { VF_AP(6, r, "C06 append succeeds"); expect_append(x); VF_AP(6, x->next == 0, "C06 appended item ends the chain"); x = 0; VF_WITNESS("ok"); }
        else VF_AP(6, !r, "C06 NULL argument or self-insertion is refused");
        VF_AP(8, vf_live == live0, "C08 no allocation");
    }
#elif OP == 2 || OP == 3    /* cJSON_AddItemToObject / cJSON_AddItemToObjectCS */
    {
        cJSON *o = parent, *it = x; const char *key = key_arg(0, 0); cJSON_bool r; int m = IN.mode % 5;
        memcpy(keycopy, key, TS + 1);
        if (m == 1) it = 0; else if (m == 2) it = parent; else if (m == 3) o = 0; else if (m == 4) key = 0;
#if OP == 2
        r = cJSON_AddItemToObject(o, key, it);
#else
        r = cJSON_AddItemToObjectCS(o, key, it);
#endif
        if (m == 0 && r) {
            expect_append(x);
            VF_AP(6, x->string != 0 && eq_cs(x->string, keycopy), "C06 the new member carries the given key");
#if OP == 2
            VF_AP(7, x->string != key && !(x->type & cJSON_StringIsConst), "C07 the key is an owned copy");
            VF_AP(8, !INJECTED, "C08 success impossible when the key copy was refused");
#else
            VF_AP(7, x->string == key && (x->type & cJSON_StringIsConst), "C07 the constant key is borrowed, flagged constant");
#endif
            VF_AP(6, (x->type & 0xFF) == (xtype0 & 0xFF), "C06 value kind unchanged");
            x = 0; VF_WITNESS("ok");
        } else {
            if (m == 0) {
#if OP == 2
                VF_AP(8, INJECTED, "C08 failure only when the key copy was refused");
#else
                VF_AP(6, 0, "C06 constant-key add cannot fail");
#endif
            } else VF_AP(6, !r, "C06 NULL argument or self-insertion is refused");
            VF_AP(8, vf_live == live0, "C08 failed add leaves the allocator balance");
            VF_AP(8, x->string == xstring0 && x->type == xtype0, "C08 failed add leaves the item untouched (its key is not released)");
        }
    }
#elif OP == 4 || OP == 5    /* cJSON_AddItemReferenceToArray / ToObject */
    {
        cJSON *tgt = ((IN.mode % 3) == 1) ? 0 : x; const char *key = key_arg(0, 0); cJSON_bool r; cJSON *p = ((IN.mode % 3) == 2) ? 0 : parent; cJSON *ref; cJSON tsnap;
        /* the referenced item may itself be a member of a container (here: a child of the same parent, with siblings behind it) */
        if (tgt && (IN.variant & 1) && n > 0) tgt = kid[IN.idx % n];
        if (tgt) tsnap = *tgt;
        memcpy(keycopy, key, TS + 1);
#if OP == 4
        r = cJSON_AddItemReferenceToArray(p, tgt);
#else
        r = cJSON_AddItemReferenceToObject(p, key, tgt);
#endif
        if (r) {
            VF_AP(6, (IN.mode % 3) == 0, "C06 reference add succeeds only with valid arguments");
            for (ref = parent->child, i = 0; ref && ref->next && i < K + 1; ref = ref->next) i++;
            expect_append(ref);
            VF_AP(7, ref != 0 && ref != tgt && (ref->type & cJSON_IsReference) && (ref->type & 0xFF) == (tsnap.type & 0xFF), "C07 a new node flagged as reference is appended");
            VF_AP(7, ref->child == tgt->child && ref->valuestring == tgt->valuestring, "C07 the reference borrows the target's payload");
#if OP == 5
            VF_AP(7, ref->string != 0 && ref->string != key && ref->string != tgt->string && eq_cs(ref->string, keycopy) && !(ref->type & cJSON_StringIsConst), "C07 the reference owns a copy of the key");
#else
            VF_AP(7, ref->string == 0, "C07 the reference does not share the target's key");
#endif
            VF_AP(7, tgt->string == tsnap.string && tgt->type == tsnap.type && tgt->child == tsnap.child && tgt->valuestring == tsnap.valuestring && (tgt != x || (tgt->next == 0 && tgt->prev == 0)), "C07 the referenced item is untouched (only the sibling links of a member of the same container may change)");
            VF_WITNESS("ok");
        } else {
            if ((IN.mode % 3) == 0) VF_AP(8, INJECTED, "C08 failure only after a refused allocation");
            VF_AP(8, vf_live == live0, "C08 failed reference add leaves nothing allocated and releases nothing that existed before");
            if (tgt) VF_AP(8, tgt->string == tsnap.string && tgt->type == tsnap.type && tgt->next == tsnap.next && tgt->prev == tsnap.prev, "C08 failed reference add leaves the referenced item and its siblings alone");
        }
    }
#elif OP == 6    /* cJSON_InsertItemInArray */
    {
        cJSON *it = x; cJSON_bool r; int m = IN.mode % 3; int which = IN.which;
        if (m == 1) it = 0; else if (m == 2) it = parent;
        r = cJSON_InsertItemInArray(parent, which, it);
        if (m == 0 && which >= 0) { VF_AP(6, r, "C06 insert succeeds"); if ((unsigned)which >= n) expect_append(x); else expect_insert((unsigned)which, x); x = 0; VF_WITNESS("ok"); }
        else VF_AP(6, !r, "C06 negative index, NULL item or self-insertion is refused");
    }
#elif OP == 7    /* cJSON_DetachItemViaPointer */
    {
        cJSON *r; unsigned k = IN.idx % (K + 1); int m = IN.mode % 3; cJSON *it = (k < n) ? kid[k] : 0; cJSON *p = parent;
        if (m == 1) it = 0; if (m == 2) p = 0;
        r = cJSON_DetachItemViaPointer(p, it);
        if (m == 0 && k < n) { VF_AP(6, r == kid[k] && r->next == 0 && r->prev == 0, "C06 detached item is returned without sibling links"); expect_without(k); extra = r; VF_WITNESS("ok"); }
        else VF_AP(6, r == 0, "C06 NULL argument is refused");
    }
#elif OP == 8 || OP == 9    /* cJSON_DetachItemFromArray / cJSON_DeleteItemFromArray */
    {
        int which = IN.which; int hit = which >= 0 && (unsigned)which < n;
#if OP == 8
        cJSON *r = cJSON_DetachItemFromArray(parent, which);
        if (hit) { VF_AP(6, r == kid[which] && r->next == 0 && r->prev == 0, "C06 detached item is returned without sibling links"); extra = r; } else VF_AP(6, r == 0, "C06 index out of range is refused");
#else
        cJSON_DeleteItemFromArray(parent, which);
        if (hit) VF_AP(7, vf_live < live0, "C07 deleted item is released");
#endif
        if (hit) { expect_without((unsigned)which); VF_WITNESS("ok"); }
    }
#elif OP >= 10 && OP <= 13  /* Detach/Delete ItemFromObject [CaseSensitive] */
    {
        const char *key = (IN.mode & 1) ? 0 : key_arg(1, IN.idx % (K + 1)); int cs = (OP == 11 || OP == 13); int k = key ? find_key(key, cs) : -1; cJSON *r = 0;
#if OP == 10
        r = cJSON_DetachItemFromObject(parent, key);
#elif OP == 11
        r = cJSON_DetachItemFromObjectCaseSensitive(parent, key);
#elif OP == 12
        cJSON_DeleteItemFromObject(parent, key);
#else
        cJSON_DeleteItemFromObjectCaseSensitive(parent, key);
#endif
#if OP <= 11
        if (k >= 0) { VF_AP(6, r == kid[k] && r->next == 0 && r->prev == 0, "C06 the first matching member is detached (exact match when case sensitive, ASCII case-folded otherwise)"); extra = r; }
        else VF_AP(6, r == 0, "C06 missing key is refused");
#endif
        if (k >= 0) { expect_without((unsigned)k); VF_WITNESS("ok"); }
    }
#elif OP == 14 || OP == 15  /* cJSON_ReplaceItemViaPointer / cJSON_ReplaceItemInArray */
    {
        unsigned k = IN.idx % (K + 1); int m = IN.mode % 4; cJSON *it = x; cJSON_bool r; int hit;
        if (m == 1) it = 0;
#if OP == 14
        { cJSON *old = (k < n) ? kid[k] : 0; cJSON *p = (m == 2) ? 0 : parent; if (m == 3 && k < n) it = kid[k];
          r = cJSON_ReplaceItemViaPointer(p, old, it); hit = (k < n) && m != 1 && m != 2; if (m == 3 && k < n) { VF_AP(6, r, "C06 replacing an item by itself is a no-op"); hit = 0; } }
#else
        { int which = IN.which; r = cJSON_ReplaceItemInArray(parent, which, it); hit = which >= 0 && (unsigned)which < n && m != 1; k = hit ? (unsigned)which : 0; }
#endif
        if (hit) { VF_AP(6, r, "C06 replace succeeds"); expect_replace(k, x); VF_AP(6, x->string == xstring0, "C06 replacement keeps its own key"); x = 0; VF_WITNESS("ok"); }
        else if (!(OP == 14 && m == 3 && k < n)) VF_AP(6, !r, "C06 NULL argument or index out of range is refused");
    }
#elif OP == 16 || OP == 17  /* cJSON_ReplaceItemInObject [CaseSensitive] */
    {
        unsigned kk = IN.idx % (K + 1); int m = IN.mode % 3; const char *key = (m == 1) ? 0 : key_arg(1, kk); cJSON *it = (m == 2) ? 0 : x; cJSON_bool r; int k;
        if (key) memcpy(keycopy, key, TS + 1);
        k = key ? find_key(key, OP == 17) : -1;
#if OP == 16
        r = cJSON_ReplaceItemInObject(parent, key, it);
#else
        r = cJSON_ReplaceItemInObjectCaseSensitive(parent, key, it);
#endif
        if (r) {
            VF_AP(6, m == 0 && k >= 0, "C06 replace by key succeeds only for an existing key");
            if (m == 0 && k >= 0) { expect_replace((unsigned)k, x); VF_AP(6, x->string != 0 && eq_cs(x->string, keycopy), "C06 the replacement carries the given key"); VF_AP(7, !(x->type & cJSON_StringIsConst), "C07 the replacement owns its key copy"); x = 0; VF_WITNESS("ok"); }
        } else {
            if (m == 0 && k >= 0) VF_AP(8, INJECTED, "C08 failure only when the key copy was refused");
            if (INJECTED || m != 0) { VF_AP(8, x->string == xstring0 && x->type == xtype0, "C08 a refused call leaves the replacement's key intact"); VF_AP(8, vf_live == live0, "C08 failed replace leaves the allocator balance"); }
        }
    }
#elif OP == 18   /* queries */
    {
        int which = IN.which; unsigned cnt = 0; cJSON *e; const char *key = key_arg(KEYALIAS, IN.idx % (K + 1)); cJSON *pci = find_key_ptr(key, 0), *pcs = find_key_ptr(key, 1), *pidx = 0;
        for (cnt = 0; cnt < n; cnt++) if (which >= 0 && (unsigned)which == cnt) pidx = kid[cnt];
        cnt = 0;
        VF_AP(6, cJSON_GetArraySize(parent) == (int)n, "C06 size query");
        VF_AP(6, cJSON_GetArrayItem(parent, which) == pidx, "C06 index query");
        VF_AP(6, cJSON_GetObjectItem(parent, key) == pci, "C06 case-insensitive key query returns the first case-folded match");
        VF_AP(6, cJSON_GetObjectItemCaseSensitive(parent, key) == pcs, "C06 case-sensitive key query returns the first exact match");
        VF_AP(6, cJSON_HasObjectItem(parent, key) == (pci != 0), "C06 membership query");
        VF_AP(6, cJSON_GetObjectItem(parent, 0) == 0 && cJSON_GetObjectItem(0, key) == 0 && cJSON_GetArraySize(0) == 0 && cJSON_GetArrayItem(0, 0) == 0, "C06 NULL arguments answer 'nothing'");
        cJSON_ArrayForEach(e, parent) { VF_AP(6, cnt < n && e == kid[cnt], "C06 iteration visits the children in order"); cnt++; }
        VF_AP(6, cnt == n, "C06 iteration visits every child");
        VF_AP(8, vf_live == live0, "C08 queries do not allocate");
        VF_WITNESS("ok");
    }
#elif OP == 19   /* setters on x */
    {
        int v = IN.variant % 3;
        if (v == 0) {
            double r; int want;
            VF_ASSUME(IN.num == IN.num);          /* NaN is outside the claim (its integer view is undefined in C) */
            r = cJSON_SetNumberHelper(x, IN.num); want = IN.num >= INT_MAX ? INT_MAX : IN.num <= (double)INT_MIN ? INT_MIN : (int)IN.num;
            VF_AP(6, r == IN.num && x->valuedouble == IN.num && x->valueint == want, "C06 set number stores the double and its saturated integer view");
        } else if (v == 1) {
            /* old and new text live in ONE object (old at its start, new behind it), so that the library's overlap guard - which orders
             * the two pointers - is meaningful under CBMC's memory model (it compares offsets within an object) and natively alike */
            enum { HALF = TS + 3 };
            char *blk, *newv, *r, *old; size_t oldlen, newlen; char saved[TS + 3]; int isstr = ((x->type & 0xFF) == cJSON_String), isref = 0;
            if (isstr && (IN.xkeymode & 8)) { blk = ref_big; x->type |= cJSON_IsReference; isref = 1; if (x->valuestring) vf_free(x->valuestring); }
            else if (isstr) { blk = (char *)vf_own(2 * HALF); if (x->valuestring) vf_free(x->valuestring); }
            else blk = ref_big;
            memcpy(blk, IN.xstr, TS); blk[TS] = 0; newv = blk + HALF; memcpy(newv, IN.nstr, TS + 2); newv[TS + 2] = 0;
            if (isstr) x->valuestring = blk;
            old = x->valuestring; oldlen = old ? strlen(old) : 0; newlen = strlen(newv); memcpy(saved, newv, TS + 3);
            live0 = vf_live; vf_fail_at = IN.fail_at ? vf_nreq + IN.fail_at : 0;
            r = cJSON_SetValuestring(x, (IN.mode & 1) ? (char *)0 : newv);
            if (isref) { VF_AP(7, r == 0 && x->valuestring == blk && memcmp(blk, IN.xstr, TS) == 0 && blk[TS] == 0, "C07 set string refuses string references and never writes into borrowed text"); VF_WITNESS("ref"); }
            else if (!isstr || (IN.mode & 1)) VF_AP(6, r == 0 && x->valuestring == old, "C06 set string is refused for non-strings and NULL");
            else if (r == 0) { VF_AP(8, newlen > oldlen && INJECTED, "C08 set string fails only when the copy was refused"); VF_AP(8, x->valuestring == old && vf_live == live0 && memcmp(old, IN.xstr, TS) == 0, "C08 failed set string keeps the old value"); }
            else { VF_AP(6, r == x->valuestring && strcmp(r, saved) == 0, "C06 set string stores the new text"); VF_AP(7, (newlen <= oldlen) == (r == old), "C07 shorter text is copied in place, longer text into a fresh block"); VF_AP(7, vf_live == live0, "C07 old block released when replaced"); VF_WITNESS("ok"); }
            if (isref || !isstr) x->valuestring = isstr ? 0 : x->valuestring;     /* the borrowed buffer is not part of the ledger */
            if (isref) x->type &= ~cJSON_IsReference;
        } else {
            cJSON b; memset(&b, 0, sizeof b); b.type = (IN.mode & 1) ? cJSON_True : cJSON_False; b.type |= cJSON_StringIsConst;
            cJSON_SetBoolValue(&b, (IN.mode & 2));
            VF_AP(6, (b.type & 0xFF) == ((IN.mode & 2) ? cJSON_True : cJSON_False) && (b.type & cJSON_StringIsConst), "C06 set bool changes only the kind");
        }
    }
#elif OP == 20   /* cJSON_Add<Kind>ToObject helpers */
    {
        const char *key = (IN.mode & 1) ? 0 : key_arg(0, 0); cJSON *r = 0; int v = IN.variant % 9; char sv[TS + 1]; int want = 0;
        if (key) memcpy(keycopy, key, TS + 1);
        memcpy(sv, IN.nstr, TS); sv[TS] = 0;
        switch (v) {
        case 0: r = cJSON_AddNullToObject(parent, key); want = cJSON_NULL; break;
        case 1: r = cJSON_AddTrueToObject(parent, key); want = cJSON_True; break;
        case 2: r = cJSON_AddFalseToObject(parent, key); want = cJSON_False; break;
        case 3: r = cJSON_AddBoolToObject(parent, key, IN.which & 1); want = (IN.which & 1) ? cJSON_True : cJSON_False; break;
        case 4: VF_ASSUME(IN.num == IN.num); r = cJSON_AddNumberToObject(parent, key, IN.num); want = cJSON_Number; break;
        case 5: r = cJSON_AddStringToObject(parent, key, sv); want = cJSON_String; break;
        case 6: r = cJSON_AddRawToObject(parent, key, sv); want = cJSON_Raw; break;
        case 7: r = cJSON_AddObjectToObject(parent, key); want = cJSON_Object; break;
        default: r = cJSON_AddArrayToObject(parent, key); want = cJSON_Array; break;
        }
        if (r) {
            expect_append(r);
            VF_AP(6, key != 0 && r->type == want && r->string != 0 && r->string != key && eq_cs(r->string, keycopy) && r->child == 0, "C06 helper appends a new member of the requested kind under a copy of the key");
            if (v == 5 || v == 6) VF_AP(6, r->valuestring != 0 && r->valuestring != sv && strcmp(r->valuestring, sv) == 0, "C06 helper copies the text");
            if (v == 4) VF_AP(6, r->valuedouble == IN.num, "C06 helper stores the number");
            VF_AP(8, !INJECTED, "C08 success impossible after a refused request");
            VF_WITNESS("ok");
        } else {
            if (key != 0) VF_AP(8, INJECTED, "C08 helper fails only after a refused request");
            VF_AP(8, vf_live == live0, "C08 failed helper leaves nothing allocated");
        }
    }
#endif
    VF_FRAME_END(0);
    check_list();
    if (nexp == n && expect[0] == kid[0]) { int same = 1; for (i = 0; i < n; i++) if (expect[i] != kid[i]) same = 0; (void)same; }
    VF_WITNESS("end");
    /* ---- C07: ledger. Every block that is still live is owned by exactly one node reachable from parent / x (the harness knows
     * how many nodes, owned keys and owned strings that is); cJSON_Delete's own contract (delete.c) releases each of them once. */
    if (VF_ON(7)) {
        long want = 0; cJSON *c; unsigned cnt = 0;
        want += 1; for (c = parent->child; c != 0 && cnt < K + 3; c = c->next, cnt++) {
            want += 1;
            if (c->string && !(c->type & cJSON_StringIsConst)) want += 1;
            if (c->valuestring && !(c->type & cJSON_IsReference)) want += 1;
        }
        if (extra) { want += 1; if (extra->string && !(extra->type & cJSON_StringIsConst)) want += 1; if (extra->valuestring && !(extra->type & cJSON_IsReference)) want += 1; }
        if (x) { want += 1; if (x->string && !(x->type & cJSON_StringIsConst)) want += 1; if (x->valuestring && !(x->type & cJSON_IsReference)) want += 1; }
        VF_AP(7, vf_live == want, "C07 live blocks == blocks owned by the nodes still reachable (nothing lost, nothing released twice)");
        for (i = 1; i <= K; i++) {
            if (T.bkey[i]) VF_AP(7, memcmp(vf_borrow_key[i], IN.t_key[i], TS) == 0 && vf_borrow_key[i][TS] == 0, "C07 constant keys are never modified");
            if (T.bstr[i]) VF_AP(7, memcmp(vf_borrow_str[i], IN.t_str[i], TS) == 0 && vf_borrow_str[i][TS] == 0, "C07 referenced strings are never modified");
        }
    }
    return 0;
}
