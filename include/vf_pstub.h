/* vf_pstub.h - contract stub for print_value (bound at source level, see vf.py stubbed()).
 * Contract (checked against the real leaf printers in print_leaf.c / print_str.c / print_num.c and against the real
 * containers in print_arr.c / print_obj.c):
 *   pre : item != NULL, p != NULL, printbuffer invariant (buffer != NULL, offset <= length)
 *   true: a zero-terminated text of L >= 1 bytes was written at the old offset through ensure() (so inside the buffer),
 *         offset advanced by at most L (callers must call update_offset), depth unchanged, nothing else written
 *   false: nothing promised about the bytes behind the old offset; in allocating mode the buffer may have been released
 *          by ensure (buffer == NULL)
 * VF_INPUTS must contain X(unsigned char, pp_ok, [VF_NPCALL]) X(unsigned char, pp_len, [VF_NPCALL]) X(unsigned char, pp_adv, [VF_NPCALL])
 *                        X(unsigned char, pp_txt, [VF_NPCALL][VF_PLEN]) */
#ifndef VF_PSTUB_H
#define VF_PSTUB_H
#ifndef VF_NPCALL
#define VF_NPCALL 3
#endif
#ifndef VF_PLEN
#define VF_PLEN 3
#endif
static unsigned pp_calls; static const void *pp_item[VF_NPCALL]; static size_t pp_off[VF_NPCALL], pp_depth[VF_NPCALL], pp_L[VF_NPCALL]; static int pp_res[VF_NPCALL], pp_isstr[VF_NPCALL];
static cJSON_bool vf_stub_emit(const void *item, printbuffer * const p, int isstr)
{
    unsigned k = pp_calls; size_t L, i; unsigned char *out;
    VF_BOUND(k < VF_NPCALL, "more print calls than VF_NPCALL"); VF_ASSUME(k < VF_NPCALL);
    pp_calls++;
    VF_ASSERT(p != 0 && p->buffer != 0 && p->offset <= p->length, "STUB print precondition: printbuffer invariant");
    pp_item[k] = item; pp_off[k] = p->offset; pp_depth[k] = p->depth; pp_res[k] = 0; pp_L[k] = 0; pp_isstr[k] = isstr;
    if (!IN.pp_ok[k]) return 0;
    L = 1 + IN.pp_len[k] % VF_PLEN;
    for (i = 0; i < L; i++) VF_ASSUME(IN.pp_txt[k][i] != 0);      /* assumption first, then the code it constrains */
    out = ensure(p, L + 1);
    if (out == 0) return 0;
    for (i = 0; i < L; i++) out[i] = IN.pp_txt[k][i];
    out[L] = 0;
    if (isstr != 1) p->offset += IN.pp_adv[k] % (L + 1);      /* print_string_ptr never advances the offset itself */
    pp_L[k] = L; pp_res[k] = 1;
    return 1;
}
#ifdef VF_STUB_print_value
static cJSON_bool print_value(const cJSON * const item, printbuffer * const p)
{
    VF_ASSERT(item != 0, "STUB print_value precondition: item");
    return vf_stub_emit(item, p, 0);
}
#endif
#ifdef VF_STUB_print_string_ptr
/* contract of print_string_ptr (checked on the real function in print_str.c): true => zero-terminated text written at the
 * unchanged offset through ensure(); a NULL input prints as "" */
static cJSON_bool print_string_ptr(const unsigned char * const input, printbuffer * const p)
{
    return vf_stub_emit(input, p, 1);
}
#endif
#ifdef VF_STUB_print_number
static cJSON_bool print_number(const cJSON * const item, printbuffer * const p) { return vf_stub_emit(item, p, 2); }
#endif
#ifdef VF_STUB_print_array
static cJSON_bool print_array(const cJSON * const item, printbuffer * const p) { return vf_stub_emit(item, p, 3); }
#endif
#ifdef VF_STUB_print_object
static cJSON_bool print_object(const cJSON * const item, printbuffer * const p) { return vf_stub_emit(item, p, 4); }
#endif
#endif
