/* vf_ref_print.h - independent reference printer over the tree MODEL (the input record, not the cJSON nodes).
 * It defines the text the print functions must produce: strict RFC 8259 tokens, cJSON's documented layout. */
#ifndef VF_REF_PRINT_H
#define VF_REF_PRINT_H
static size_t rp_o; static unsigned char *rp_out; static size_t rp_cap; static int rp_overflow;
static void rp_put(unsigned char c) { if (rp_o + 1 < rp_cap) rp_out[rp_o++] = c; else rp_overflow = 1; }
static void rp_puts(const char *s) { while (*s) rp_put((unsigned char)*s++); }
static void rp_string(const unsigned char *s)
{
    size_t k; static const char hx[] = "0123456789abcdef";
    rp_put('"');
    for (k = 0; k < TS && s[k] != 0; k++) {
        unsigned char c = s[k];
        if (c == '"') { rp_put('\\'); rp_put('"'); }
        else if (c == '\\') { rp_put('\\'); rp_put('\\'); }
        else if (c == '\b') { rp_put('\\'); rp_put('b'); }
        else if (c == '\f') { rp_put('\\'); rp_put('f'); }
        else if (c == '\n') { rp_put('\\'); rp_put('n'); }
        else if (c == '\r') { rp_put('\\'); rp_put('r'); }
        else if (c == '\t') { rp_put('\\'); rp_put('t'); }
        else if (c < 0x20) { rp_put('\\'); rp_put('u'); rp_put('0'); rp_put('0'); rp_put((unsigned char)hx[c >> 4]); rp_put((unsigned char)hx[c & 15]); }
        else rp_put(c);
    }
    rp_put('"');
}
static void rp_int(int v)
{
    char tmp[12]; int n = 0; unsigned m;
    if (v < 0) { rp_put('-'); m = (unsigned)(-(long)v); } else m = (unsigned)v;
    do { tmp[n++] = (char)('0' + (m % 10)); m /= 10; } while (m != 0 && n < 11);
    while (n > 0) rp_put((unsigned char)tmp[--n]);
}
static void rp_value(const vf_tree *t, unsigned i, unsigned depth, int fmt)
{
    int kind = vf_tkind(t, i); unsigned j, nk = vf_tnk(t, i), d;
    switch (kind) {
    case cJSON_NULL: rp_puts("null"); break;
    case cJSON_False: rp_puts("false"); break;
    case cJSON_True: rp_puts("true"); break;
    case cJSON_Number: rp_int(t->ival[i]); break;
    case cJSON_String: rp_string(t->str[i]); break;
    case cJSON_Raw: { size_t k; for (k = 0; k < TS && t->str[i][k] != 0; k++) rp_put(t->str[i][k]); break; }
    case cJSON_Array:
        rp_put('[');
        for (j = 0; j < nk; j++) { if (j) { rp_put(','); if (fmt) rp_put(' '); } rp_value(t, i * TK + 1 + j, depth + 1, fmt); }
        rp_put(']');
        break;
    default: /* object */
        rp_put('{'); if (fmt) rp_put('\n');
        for (j = 0; j < nk; j++) {
            if (fmt) for (d = 0; d < depth + 1; d++) rp_put('\t');
            rp_string(t->key[i * TK + 1 + j]); rp_put(':'); if (fmt) rp_put('\t');
            rp_value(t, i * TK + 1 + j, depth + 1, fmt);
            if (j + 1 < nk) rp_put(',');
            if (fmt) rp_put('\n');
        }
        if (fmt) for (d = 0; d < depth; d++) rp_put('\t');
        rp_put('}');
        break;
    }
}
static size_t ref_print(const vf_tree *t, int fmt, unsigned char *out, size_t cap)
{
    rp_o = 0; rp_out = out; rp_cap = cap; rp_overflow = 0;
    rp_value(t, 0, 0, fmt);
    out[rp_o] = 0;
    return rp_o;
}
#endif
