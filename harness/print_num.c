/* Unit: print_number for EVERY double / valueint pair (floating point decided by the solver), under the libc contract:
 *   %d exact; %1.15g writes a text t15 whose value v15 (what sscanf/strtod read back) is within 5e-15 relative of d, equal to d
 *   for integers below 1e15, infinite only for |d| within 5e-15 of DBL_MAX; %1.17g writes a text whose value is exactly d;
 *   both texts match the C grammar -?D+(pD+)?(e[+-]DD+)? with the locale decimal point p, or are inf/-inf/nan.
 * C04: the value the emitted text denotes is within 2^-52 relative of d, exactly d for integers of magnitude < 1e15.
 * C05: emitted text is an RFC 8259 number (decimal point normalised to '.'), "null" for non-finite, a plain decimal integer
 *      when the number is integer valued in the int range.   C09: exact-size caller buffer, symbolic offset. */
#define N 40
#define VF_INPUTS(X) X(double, d, ) X(int, vi, ) X(unsigned char, wf, ) X(unsigned, off, ) X(unsigned char, pre, [N]) \
    X(unsigned char, g_text, [2][26]) X(double, g_val, ) X(double, strtod_val, ) X(unsigned char, dp, )
#include "vf.h"
#include "vf_str.h"
#define VF_MODEL_PRINTF
#define VF_MAXDIGITS 10
#include "vf_libc.h"
#include "cJSON.c"

static int dig(unsigned char c) { return c >= '0' && c <= '9'; }
/* C grammar for %g output with decimal point p (also used, with p='.', as the RFC 8259 number grammar check; leading zeros excluded) */
static int num_grammar(const unsigned char *b, size_t n, unsigned char p)
{
    size_t i = 0;
    if (i < n && b[i] == '-') i++;
    if (i >= n || !dig(b[i])) return 0;
    if (b[i] == '0') i++; else while (i < n && dig(b[i])) i++;
    if (i < n && b[i] == p) { i++; if (i >= n || !dig(b[i])) return 0; while (i < n && dig(b[i])) i++; }
    if (i < n && (b[i] == 'e' || b[i] == 'E')) { i++; if (i < n && (b[i] == '+' || b[i] == '-')) i++; if (i >= n || !dig(b[i])) return 0; while (i < n && dig(b[i])) i++; }
    return i == n;
}
static int is_word(const unsigned char *b, size_t n, const char *w) { size_t k = strlen(w); return n == k && memcmp(b, w, k) == 0; }

static int body(void);
int main(VF_MAIN_ARGS)
{
    VF_INIT(); VF_LIBC_ASSUME();
#ifdef VF_NATIVE
    if (getenv("VF_SEARCH")) {
        /* the libc contract over-approximates glibc: when the solver's (d, v15) pair is not what glibc produces for that d, look for a
         * realisable witness among nearby doubles of the same sign and magnitude (a violation is only ever reported if one is found) */
        double d0 = IN.d; long k; int wf = IN.wf & 1; unsigned o;
        for (k = 0; k < 6000; k++) {
            IN.d = d0 * (1.0 + (double)k * 7.3e-7);
            if (wf) IN.vi = IN.d >= INT_MAX ? INT_MAX : IN.d <= (double)INT_MIN ? INT_MIN : (int)IN.d;
            for (o = 0; o <= N; o++) { IN.off = o; body(); }        /* every distance to the end of the caller's buffer */
        }
        for (k = 6000; k < 200000; k++) {
            IN.d = d0 * (1.0 + (double)k * 7.3e-7);
            if (wf) IN.vi = IN.d >= INT_MAX ? INT_MAX : IN.d <= (double)INT_MIN ? INT_MIN : (int)IN.d;
            body();
        }
        return 0;
    }
#endif
    return body();
}
static int body(void)
{
    cJSON item; printbuffer p; unsigned char *buf; size_t off, tl, k; cJSON_bool ok; double d, val; int finite, intvalued;
#if VF_ONLY == 4 || VF_ONLY == 5
    VF_ASSUME(IN.off == 0);      /* value/format obligations do not depend on the start offset (C09 keeps it symbolic) */
#endif
    VF_ASSUME(IN.off <= N);
    off = IN.off; d = IN.d;
    memset(&item, 0, sizeof item); item.type = cJSON_Number; item.valuedouble = d; item.valueint = IN.vi;
    finite = (d == d) && (fabs(d) <= DBL_MAX);
    if (IN.wf & 1) {    /* well-formed number item: valueint is the saturated truncation (as every library constructor sets it) */
        if (d >= INT_MAX) VF_ASSUME(IN.vi == INT_MAX); else if (d <= (double)INT_MIN) VF_ASSUME(IN.vi == INT_MIN); else if (d == d) VF_ASSUME(IN.vi == (int)d);
    }
#ifndef VF_NATIVE
    {   /* ---- libc contract (trusted, see header) */
        size_t l0 = 0, l1 = 0; double ad = fabs(d);
        while (l0 < 25 && IN.g_text[0][l0]) l0++; while (l1 < 25 && IN.g_text[1][l1]) l1++;
        VF_ASSUME(IN.g_text[0][l0] == 0 && IN.g_text[1][l1] == 0 && l0 <= 22 && l1 <= 24 && l0 >= 1 && l1 >= 1);
        if (finite) {
            VF_ASSUME(num_grammar(IN.g_text[0], l0, IN.dp) && num_grammar(IN.g_text[1], l1, IN.dp));
            VF_ASSUME((IN.g_text[0][0] == '-') == (d < 0 || (d == 0 && 1.0 / d < 0)) || d == 0);
            if (ad >= 1.797693134862315e308) VF_ASSUME(IN.g_val == IN.g_val);    /* may overflow to infinity */
            else { VF_ASSUME(fabs(IN.g_val) <= DBL_MAX); VF_ASSUME(fabs(IN.g_val - d) <= 5e-15 * ad); }
            if (ad < 1e15 && d == floor(d)) VF_ASSUME(IN.g_val == d);
        } else {
            VF_ASSUME(is_word(IN.g_text[0], l0, "inf") || is_word(IN.g_text[0], l0, "-inf") || is_word(IN.g_text[0], l0, "nan") || is_word(IN.g_text[0], l0, "-nan"));
            VF_ASSUME(is_word(IN.g_text[1], l1, "inf") || is_word(IN.g_text[1], l1, "-inf") || is_word(IN.g_text[1], l1, "nan") || is_word(IN.g_text[1], l1, "-nan"));
        }
    }
#endif
    buf = (unsigned char *)vf_exact(IN.pre, N);
    memset(&p, 0, sizeof p);
    p.buffer = buf; p.length = N; p.offset = off; p.noalloc = 1;

    ok = print_number(&item, &p);

    if (ok) {
        tl = p.offset - off;
        VF_AP(9, p.offset >= off && p.offset + 1 <= N && buf[p.offset] == 0, "C09 text and terminator inside the buffer, offset at the terminator");
        VF_AP(9, tl >= 1 && tl <= 25, "C09 number text length");
        /* the value the emitted text denotes */
#ifdef VF_NATIVE
        val = is_word(buf + off, tl, "null") ? 0.0 : strtod((const char *)buf + off, 0);
#else
        val = (vf_g_calls == 0) ? (double)item.valueint : (vf_g_calls == 1 ? IN.g_val : d);
#endif
        if (!finite) { VF_AP(5, is_word(buf + off, tl, "null"), "C05 non-finite numbers are printed as null"); VF_WITNESS("nonfinite"); }
        else {
            VF_AP(5, num_grammar(buf + off, tl, '.'), "C05 emitted text is an RFC 8259 number with '.' as decimal point");
            VF_AP(4, fabs(val) <= DBL_MAX && fabs(val - d) <= (fabs(val) > fabs(d) ? fabs(val) : fabs(d)) * DBL_EPSILON, "C04 the emitted text denotes d within one part in 2^52");
            VF_AP(5, fabs(val) <= DBL_MAX && fabs(val - d) <= (fabs(val) > fabs(d) ? fabs(val) : fabs(d)) * DBL_EPSILON, "C05 the emitted text decodes to the same number (to the precision the library promises: one part in 2^52)");
            if (fabs(d) < 1e15 && d == floor(d) && (IN.wf & 1)) VF_AP(4, val == d, "C04 integers of magnitude below 1e15 are printed exactly");
            intvalued = (IN.wf & 1) && d == floor(d) && d >= (double)INT_MIN && d <= (double)INT_MAX;
            if (intvalued) { for (k = 0; k < tl; k++) VF_AP(5, dig(buf[off + k]) || (k == 0 && buf[off] == '-'), "C05 integer valued numbers in the int range are plain decimal integers"); VF_WITNESS("int"); }
            VF_WITNESS("finite");
        }
    }
    if (off + 26 + 5 <= N) VF_AP(9, ok, "C09 print_number succeeds when the longest number text plus five spare bytes fit");
    for (k = 0; k < N; k++) if (k < off) VF_AP(9, buf[k] == IN.pre[k], "C09 bytes in front of the start offset are not touched");
    VF_WITNESS("end");
    free(buf);
    return 0;
}
