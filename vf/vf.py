#!/usr/bin/env python3
"""vf - driver for bounded solver-based checks of cJSON with CBMC.

  vf.py check <Cxx> [--tier quick|thorough] [--only <query-id-substring>] [--keep] [-j N]
  vf.py replay <replay-file>
  vf.py list

Pipeline per query: copy /repo sources -> goto-cc (harness + real library source) -> cbmc (all assertions
as separate obligations, json-ui, traces) -> for every failed obligation: model -> replay file -> native
build of the SAME harness (-DVF_NATIVE, ASan+UBSan, real libc) -> VIOLATION only if it reproduces.
"""
import sys, os, json, subprocess, shutil, time, hashlib, tempfile, re, argparse, resource, signal
from concurrent.futures import ThreadPoolExecutor

ROOT = os.path.dirname(os.path.dirname(os.path.abspath(__file__)))
REPO = os.environ.get('VF_REPO', '/repo')
EVID = os.environ.get('VF_EVIDENCE_DIR') or os.path.join(ROOT, 'evidence')     # experiments on patched copies write elsewhere
sys.path.insert(0, os.path.join(ROOT, 'vf'))

LIB_FILES = ['cJSON.c', 'cJSON.h', 'cJSON_Utils.c', 'cJSON_Utils.h']
LIB_DEFS = ['-DENABLE_LOCALES', '-DCJSON_API_VISIBILITY', '-DCJSON_EXPORT_SYMBOLS']
CBMC_FLAGS = ['--unwinding-assertions', '--no-malloc-may-fail', '--drop-unused-functions',
              '--signed-overflow-check', '--conversion-check', '--undefined-shift-check',
              '--json-ui', '--trace', '--object-bits', '10', '--verbosity', '8']


def sh(cmd, timeout=None, cwd=None, mem_gb=None, env=None):
    def lim():
        os.setsid()
        if mem_gb:
            b = int(mem_gb * (1 << 30))
            resource.setrlimit(resource.RLIMIT_AS, (b, b))
    t0 = time.time()
    p = subprocess.Popen(cmd, stdout=subprocess.PIPE, stderr=subprocess.PIPE, cwd=cwd, preexec_fn=lim, env=env)
    try:
        out, err = p.communicate(timeout=timeout)
        to = False
    except subprocess.TimeoutExpired:
        try:
            os.killpg(p.pid, signal.SIGKILL)
        except Exception:
            pass
        out, err = p.communicate()
        to = True
    ru = resource.getrusage(resource.RUSAGE_CHILDREN)
    return p.returncode, out.decode('utf8', 'replace'), err.decode('utf8', 'replace'), to, time.time() - t0


class Scratch:
    def __init__(self, keep=False):
        base = os.environ.get('VERIF_SCRATCH') or '/var/tmp'
        os.makedirs(base, exist_ok=True)
        self.dir = tempfile.mkdtemp(prefix='vf.', dir=base)
        self.keep = keep
        self.src = os.path.join(self.dir, 'src')
        os.makedirs(self.src)
        self.hashes = {}
        import threading
        self.lock = threading.Lock()
        for f in LIB_FILES:
            shutil.copy(os.path.join(REPO, f), os.path.join(self.src, f))
            self.hashes[f] = hashlib.sha256(open(os.path.join(self.src, f), 'rb').read()).hexdigest()[:16]

    def stubbed(self, lib, names):
        """Copy of <lib> in which the DEFINITION of each static function in names is renamed to <name>__real and
        replaced by a declaration, so that the harness can bind calls to a contract stub (bodies are untouched)."""
        out = '%s.stub.%s.c' % (lib[:-2], '+'.join(names))
        path = os.path.join(self.src, out)
        with self.lock:
            if not os.path.exists(path):
                txt = open(os.path.join(self.src, lib)).read()
                for n in names:
                    rx = re.compile(r'^(CJSON_PUBLIC\([^)]*\)\s*|(?:static\s)?[A-Za-z_][^;{}()#]*?\b)' + re.escape(n) + r'(\s*\(([^;{}]*)\)\s*)\{', re.M)
                    m = rx.search(txt)
                    if not m:
                        raise RuntimeError('cannot find the definition of %s in %s' % (n, lib))
                    decl = m.group(1) + n + m.group(2).rstrip() + ';\n'
                    txt = txt[:m.start()] + decl + m.group(1) + n + '__real' + m.group(2) + '{' + txt[m.end():]
                open(path, 'w').write(txt)
        return out

    def close(self):
        if not self.keep:
            shutil.rmtree(self.dir, ignore_errors=True)


def bin_to_bytes(b):
    """CBMC prints values MSB first; we need the in-memory (little endian) bytes."""
    n = len(b) // 8
    v = int(b, 2) if b else 0
    return v.to_bytes(n, 'little') if n else b''


def value_bytes(v):
    """Flatten a CBMC json-ui value (scalar / array / struct of those) into little endian bytes."""
    if v is None:
        return b''
    if 'binary' in v and 'elements' not in v and 'members' not in v:
        return bin_to_bytes(v['binary'])
    if 'elements' in v:
        return b''.join(value_bytes(e['value']) for e in sorted(v['elements'], key=lambda e: e['index']))
    if 'members' in v:
        return b''.join(value_bytes(m['value']) for m in v['members'])
    if v.get('name') == 'pointer':
        return b'\0' * 8
    return b''


def extract_inputs(trace):
    """Return {field: bytes} for the global input record IN from a json-ui trace (last assignment wins)."""
    fields = {}
    for st in trace:
        if st.get('stepType') != 'assignment':
            continue
        lhs = st.get('lhs', '')
        if lhs == 'IN' and 'members' in st.get('value', {}):
            for m in st['value']['members']:
                fields[m['name']] = value_bytes(m['value'])
        elif lhs.startswith('IN.'):
            m = re.match(r'IN\.(\w+)((?:\[\d+l?\])*)$', lhs)
            if not m:
                continue
            name = m.group(1)
            idx = [int(x) for x in re.findall(r'\[(\d+)l?\]', m.group(2))]
            vb = value_bytes(st.get('value'))
            if not idx:
                fields[name] = vb
            elif len(idx) == 1 and name in fields:
                old = bytearray(fields[name]); k = len(vb)
                if k and (idx[0] + 1) * k <= len(old):
                    old[idx[0] * k:(idx[0] + 1) * k] = vb
                    fields[name] = bytes(old)
    fields.pop('vf_pad_', None)
    return fields


def write_replay(path, q, fields, prop):
    with open(path, 'w') as f:
        f.write('#vf-replay query=%s harness=%s\n' % (q['id'], q['src']))
        f.write('#defs %s\n' % ' '.join(q.get('defs', [])))
        f.write('#link %s\n' % ' '.join(q.get('link', [])))
        f.write('#stub %s %s\n' % (q.get('stub_lib', 'cJSON.c'), ' '.join(q.get('stub', []))))
        f.write('#property %s\n' % json.dumps(prop))
        for k, v in fields.items():
            f.write('%s %s\n' % (k, v.hex()))


def link_paths(sc, q):
    """linked translation units: cJSON.c goes through the wrapper harness/lib_cjson.c (same libc models as the harness TU)"""
    return [os.path.join(ROOT, 'harness', 'lib_cjson.c') if l == 'cJSON.c' else os.path.join(sc.src, l) for l in q.get('link', [])]


def native_build(sc, q, tag):
    exe = os.path.join(sc.dir, 'native_' + tag)
    cmd = ['gcc', '-g', '-O0', '-w', '-fsanitize=address,undefined', '-fno-sanitize-recover=undefined', '-fno-omit-frame-pointer',
           '-DVF_NATIVE'] + LIB_DEFS + q.get('defs', []) + ['-I', sc.src, '-I', os.path.join(ROOT, 'include'),
           os.path.join(ROOT, q['src'])] + link_paths(sc, q) + ['-lm', '-o', exe]
    rc, out, err, to, dt = sh(cmd, timeout=120)
    if rc != 0:
        return None, err
    return exe, ''


def native_run(exe, replay, timeout=20, search=False):
    env = dict(os.environ, ASAN_OPTIONS='detect_leaks=0:abort_on_error=0:exitcode=99', UBSAN_OPTIONS='print_stacktrace=1:halt_on_error=1:exitcode=98')
    if search:
        env['VF_SEARCH'] = '1'
    rc, out, err, to, dt = sh([exe, replay], timeout=timeout, env=env)
    if to:
        return 'timeout', 'native run did not terminate within %ds' % timeout
    if rc == 0:
        return 'pass', ''
    if rc == 77:
        return 'assume', err[-400:]
    if rc in (78, 79):
        return 'error', err[-400:]
    return 'fail', (err[-6000:] or out[-500:])


def prepare(sc, q):
    if q.get('stub') and not q.get('_prepared'):
        lib = q.get('stub_lib', 'cJSON.c')
        out = sc.stubbed(lib, q['stub'])
        q['defs'] = list(q.get('defs', [])) + ['-DVF_LIB="%s"' % out] + ['-DVF_STUB_%s' % n for n in q['stub']]
        q['_prepared'] = True


def run_query(sc, q, args):
    """Returns a result dict for one query."""
    try:
        prepare(sc, q)
    except RuntimeError as e:
        return {'id': q['id'], 'src': q['src'], 'defs': q.get('defs', []), 'unwind': q.get('unwind'), 'unwindset': q.get('unwindset', []), 'status': 'BUILD_ERROR',
                'obligations': 0, 'failed': [], 'witness_ok': 0, 'witness_missing': [], 'solver_s': 0.0, 'wall_s': 0.0, 'violations': [], 'notes': [str(e)], 'sample': None}
    tag = re.sub(r'[^A-Za-z0-9_.-]', '_', q['id'])
    res = {'id': q['id'], 'src': q['src'], 'defs': q.get('defs', []), 'unwind': q.get('unwind'), 'unwindset': q.get('unwindset', []),
           'status': None, 'obligations': 0, 'failed': [], 'witness_ok': 0, 'witness_missing': [], 'solver_s': 0.0, 'wall_s': 0.0,
           'violations': [], 'notes': [], 'sample': None}
    t0 = time.time()
    gb = os.path.join(sc.dir, tag + '.gb')
    cc = ['goto-cc'] + LIB_DEFS + q.get('defs', []) + ['-I', sc.src, '-I', os.path.join(ROOT, 'include'),
          os.path.join(ROOT, q['src'])] + link_paths(sc, q) + ['-o', gb]
    if q.get('export_file_local'):
        cc.insert(1, '--export-file-local-symbols')
    rc, out, err, to, dt = sh(cc, timeout=300)
    if rc != 0:
        res['status'] = 'BUILD_ERROR'
        res['notes'].append((out + err)[-2000:])
        res['wall_s'] = time.time() - t0
        return res
    if q.get('replace_calls') or q.get('instrument'):
        gb2 = gb + '.lib'
        rc, out, err, to, dt = sh(['goto-instrument', '--add-library', gb, gb2], timeout=300)
        if rc != 0:
            res['status'] = 'BUILD_ERROR'; res['notes'].append('add-library: ' + (out + err)[-1500:]); return res
        gb3 = gb + '.rc'
        cmd = ['goto-instrument']
        for a, b in q.get('replace_calls', []):
            cmd += ['--replace-calls', '%s:%s' % (a, b)]
        cmd += q.get('instrument', []) + [gb2, gb3]
        rc, out, err, to, dt = sh(cmd, timeout=300)
        if rc != 0:
            res['status'] = 'BUILD_ERROR'; res['notes'].append('instrument: ' + (out + err)[-1500:]); return res
        gb = gb3
    cb = ['cbmc', gb] + CBMC_FLAGS
    if q.get('unwind') is not None:
        cb += ['--unwind', str(q['unwind'])]
    if q.get('unwindset'):
        cb += ['--unwindset', ','.join(q['unwindset'])]
    cb += q.get('cbmc', [])
    timeout = q.get('timeout', 600) * float(os.environ.get('VF_TIMEOUT_SCALE', '1'))
    if os.environ.get('VF_SOLVER') and not q.get('solver'):
        q = dict(q, solver=os.environ['VF_SOLVER'])
    if q.get('solver'):
        cb += ['--sat-solver', q['solver']]
    rc, out, err, to, dt = sh(cb, timeout=timeout, mem_gb=float(os.environ.get('VF_MEM_GB', q.get('mem_gb', 12))))
    if to and not q.get('solver'):
        # MiniSat (CBMC's default) has runtime cliffs on some instances; CaDiCaL decides them in seconds - one retry, same bound, same budget
        res['notes'].append('MiniSat exceeded %ds; retried with --sat-solver cadical' % int(timeout))
        rc, out, err, to, dt2 = sh(cb + ['--sat-solver', 'cadical'], timeout=timeout, mem_gb=float(os.environ.get('VF_MEM_GB', q.get('mem_gb', 12))))
        dt += dt2
    res['cbmc_s'] = round(dt, 2)
    if to:
        res['status'] = 'TIMEOUT'
        res['wall_s'] = time.time() - t0
        return res
    try:
        msgs = json.loads(out)
    except Exception:
        res['status'] = 'CBMC_ERROR'
        res['notes'].append((out[-1500:] + err[-1500:]))
        res['wall_s'] = time.time() - t0
        return res
    results = None
    for m in msgs:
        if isinstance(m, dict):
            if 'result' in m:
                results = m['result']
            if m.get('messageType') == 'STATUS-MESSAGE':
                t = m.get('messageText', '')
                mm = re.search(r'Runtime decision procedure: ([0-9.e+-]+)s', t)
                if mm:
                    res['solver_s'] += float(mm.group(1))
                mm = re.search(r'Runtime Symex: ([0-9.e+-]+)s', t)
                if mm:
                    res['symex_s'] = res.get('symex_s', 0.0) + float(mm.group(1))
                mm = re.search(r'size of program expression: (\d+) steps', t)
                if mm:
                    res['steps'] = int(mm.group(1))
                mm = re.search(r'Generated (\d+) VCC\(s\), (\d+) remaining', t)
                if mm:
                    res['vccs'] = int(mm.group(1)); res['vccs_after_simplification'] = int(mm.group(2))
                mm = re.search(r'(\d+) variables, (\d+) clauses', t)
                if mm:
                    res['sat_vars'] = max(res.get('sat_vars', 0), int(mm.group(1)))
                    res['sat_clauses'] = max(res.get('sat_clauses', 0), int(mm.group(2)))
            if m.get('messageType') == 'ERROR':
                res['notes'].append('cbmc error: ' + m.get('messageText', '')[:500])
    if results is None:
        res['status'] = 'CBMC_ERROR'
        res['notes'].append((out[-1500:] + err[-1500:]))
        res['wall_s'] = time.time() - t0
        return res
    res['obligations'] = len(results)
    expected_wit = set(q.get('witnesses', []))
    seen_wit = set()
    fails = []
    for r in results:
        desc = r.get('description', '')
        st = r.get('status')
        if desc.startswith('VF_WITNESS:'):
            name = desc[len('VF_WITNESS:'):]
            seen_wit.add(name)
            if st == 'FAILURE':
                res['witness_ok'] += 1
                if res['sample'] is None and r.get('trace'):
                    f = extract_inputs(r['trace'])
                    res['sample'] = {k: v.hex() for k, v in f.items()}
            else:
                res['witness_missing'].append(name)
            continue
        if st == 'FAILURE' and desc.startswith('same object violation'):
            # relational comparison of pointers into different objects: standard-level UB no sanitizer can confirm; informational
            res.setdefault('unconfirmable_ub', []).append('%s line %s: %s' % (r.get('sourceLocation', {}).get('function'), r.get('sourceLocation', {}).get('line'), desc[:120]))
        elif st == 'FAILURE' and 'on signed to unsigned type conversion' in desc:
            # --conversion-check also flags the conversion of a negative value to an unsigned type, which C defines (6.3.1.3p2: modulo 2^N) and
            # which the library uses on purpose ((unsigned char)c); it is no obligation of any property: informational only
            res.setdefault('defined_conversions', []).append('%s line %s' % (r.get('sourceLocation', {}).get('function'), r.get('sourceLocation', {}).get('line')))
        elif st == 'FAILURE':
            fails.append(r)
        elif st not in ('SUCCESS',):
            res['notes'].append('obligation %s status %s' % (r.get('property'), st))
    required = set(q.get('witnesses') or ['end'])
    res['witness_missing'] = [w for w in res['witness_missing'] if w in required]
    for w in required - seen_wit:
        res['witness_missing'].append(w + ' (not in harness)')
    res['nonwitness_obligations'] = res['obligations'] - len(seen_wit)
    # ---- confirm failures natively
    exe = None
    for i, r in enumerate(fails):
        desc = r.get('description', '')
        prop = {'property': r.get('property'), 'description': desc, 'location': r.get('sourceLocation', {})}
        kind = 'unwind' if 'unwinding assertion' in desc else ('bound' if desc.startswith('VF_BOUND:') else 'assert')
        fields = extract_inputs(r.get('trace', []))
        rp_dir = os.path.join(EVID, 'replays')
        os.makedirs(rp_dir, exist_ok=True)
        rp = os.path.join(rp_dir, '%s-%d.replay' % (tag, i))
        write_replay(rp, q, fields, prop)
        if exe is None:
            exe, berr = native_build(sc, q, tag)
            if exe is None:
                res['notes'].append('native build failed: ' + berr[-800:])
        verdict, detail = ('error', 'no native build') if exe is None else native_run(exe, rp)
        if verdict == 'pass' and q.get('native_search') and exe is not None:
            # model over-approximates libc: look for a realisable witness near the solver's model (harness-defined search)
            v2, d2 = native_run(exe, rp, timeout=120, search=True)
            if v2 == 'fail':
                found = dict(re.findall(r'VF_INPUT (\w+) ([0-9a-f]*)', d2))
                if found:
                    fields = {k: bytes.fromhex(v) for k, v in found.items()}
                    write_replay(rp, q, fields, prop)
                    verdict, detail = native_run(exe, rp)
                    detail = 'witness found by native search near the solver model; ' + detail
        entry = {'kind': kind, 'property': r.get('property'), 'description': desc, 'line': prop['location'].get('line'),
                 'function': prop['location'].get('function'), 'replay': rp, 'native': verdict, 'detail': detail[-600:]}
        res['failed'].append(entry)
        if verdict in ('fail', 'timeout'):
            res['violations'].append(entry)
        if len(res['failed']) >= 6:
            break
    if res['violations']:
        res['status'] = 'VIOLATION'
    elif res['failed']:
        res['status'] = 'INCONCLUSIVE'
    elif res['witness_missing']:
        res['status'] = 'VACUOUS'
    else:
        res['status'] = 'OK'
    res['wall_s'] = round(time.time() - t0, 2)
    return res


def load_known():
    known = []
    p = os.path.join(ROOT, 'known_findings.txt')
    if os.path.exists(p):
        for l in open(p):
            l = l.strip()
            if l.startswith('finding:'):
                m = re.match(r'finding:\s+property=(\S+)\s+key=(\S+)\s+(.*)', l)
                if m:
                    known.append({'property': m.group(1), 'key': m.group(2), 'text': m.group(3)})
    return known


def functions_encoded(sc, q):
    return q.get('functions', [])


def cmd_check(args):
    import queries
    pid = args.property
    tier = args.tier or os.environ.get('VERIF_TIER') or 'quick'
    seed = int(os.environ.get('VERIF_SEED', '0') or 0)
    qs = [q for q in queries.QUERIES if q['prop'] == pid and tier in q.get('tiers', ('quick', 'thorough'))]
    if args.only:
        qs = [q for q in qs if args.only in q['id']]
    import props
    meta = props.PROPS.get(pid, {})
    t0 = time.time()
    sc = Scratch(keep=args.keep)
    results = []
    try:
        with ThreadPoolExecutor(max_workers=args.jobs) as ex:
            futs = [ex.submit(run_query, sc, q, args) for q in sorted(qs, key=lambda q: -q.get('cost', 1))]
            for f in futs:
                r = f.result()
                results.append(r)
                if args.verbose:
                    print('  [%s] %-40s %6.1fs obligations=%d failed=%d %s' % (r['status'], r['id'], r['wall_s'], r['obligations'], len(r['failed']), '; '.join(n[:300] for n in r['notes'])), flush=True)
    finally:
        sc.close()
    c20_info = None
    if pid == 'C20':
        import c20
        sc2 = Scratch()
        try:
            statics, access = c20.analyse(sc2.src, LIB_DEFS)
            fnd = c20.findings(statics, access)
            c20_info = {'statics': {k: v for k, v in statics.items()}, 'access': {k: {a: sorted(b) for a, b in v.items()} for k, v in access.items()}, 'findings': fnd, 'confirm': None}
            if fnd:
                conf = c20.confirm(ROOT, sc2.src, sc2.dir)
                c20_info['confirm'] = conf
                confirmed = conf.get('tsan', ('', ''))[0] == 'race' or conf.get('results', ('', ''))[0] == 'mismatch'
                rp_dir = os.path.join(EVID, 'replays'); os.makedirs(rp_dir, exist_ok=True)
                rp = os.path.join(rp_dir, 'C20.frame.replay')
                with open(rp, 'w') as f:
                    f.write('#vf-c20 findings (replay: build repro/c20_threads.c with -fsanitize=thread against /repo and run it under setarch -R)\n')
                    f.write(json.dumps({'findings': fnd, 'confirm': conf}, indent=1, default=str))
                r = {'id': 'C20.frame.statics', 'src': 'vf/c20.py', 'defs': [], 'unwind': None, 'unwindset': [], 'obligations': len(statics), 'failed': [], 'witness_ok': 1, 'witness_missing': [],
                     'solver_s': 0.0, 'wall_s': 0.0, 'violations': [], 'notes': [], 'sample': None, 'nonwitness_obligations': len(statics)}
                entry = {'kind': 'frame', 'property': 'C20.frame', 'description': '; '.join('%s: %s' % (x['object'], x['detail']) for x in fnd)[:600], 'line': None, 'function': None, 'replay': rp,
                         'native': 'fail' if confirmed else 'pass', 'detail': json.dumps(conf, default=str)[:1200]}
                r['failed'].append(entry)
                if confirmed:
                    r['violations'].append(entry); r['status'] = 'VIOLATION'
                else:
                    r['status'] = 'INCONCLUSIVE'
                results.append(r)
            else:
                results.append({'id': 'C20.frame.statics', 'src': 'vf/c20.py', 'defs': [], 'unwind': None, 'unwindset': [], 'obligations': len(statics), 'failed': [], 'witness_ok': 1, 'witness_missing': [],
                                'solver_s': 0.0, 'wall_s': 0.0, 'violations': [], 'notes': [], 'sample': {'statics': sorted(statics)}, 'nonwitness_obligations': len(statics), 'status': 'OK'})
        finally:
            sc2.close()
    known = [k for k in load_known() if k['property'] == pid]
    viol = []; known_hit = []; problems = []
    for r in results:
        if r['status'] == 'VIOLATION':
            for v in r['violations']:
                key = '%s:%s' % (r['id'], v['description'])
                k = [k for k in known if k['key'] in key]
                if k:
                    known_hit.append((k[0], v))
                else:
                    viol.append((r, v))
        elif r['status'] != 'OK':
            problems.append(r)
    # evidence
    n_ob = sum(r['obligations'] for r in results)
    nontrivial = sum(1 for r in results if r['status'] in ('OK', 'VIOLATION') and r['witness_ok'] > 0 and r.get('nonwitness_obligations', 0) > 0)
    samples = []
    for r in results[:40]:
        samples.append({'query': r['id'], 'harness': r['src'], 'defs': r['defs'], 'unwind': r['unwind'], 'unwindset': [e for e in r['unwindset'] if not e.startswith(('vf_str', 'vf_mem', 'main.', 'vf_sprintf', 'body.'))],
                        'status': r['status'], 'obligations': r['obligations'], 'witness_input': r['sample'],
                        'solver_s': round(r['solver_s'], 2), 'symex_s': round(r.get('symex_s', 0.0), 2), 'steps': r.get('steps'), 'vccs': r.get('vccs'), 'sat_vars': r.get('sat_vars'), 'sat_clauses': r.get('sat_clauses'), 'wall_s': r['wall_s'], 'notes': r['notes'][:2]})
    ev = {
        'property_id': pid, 'tier': tier, 'seed': seed, 'level': meta.get('level', 'model_checking'),
        'coverage': {
            'evaluations': len(results),
            'distinct_nontrivial': nontrivial,
            'rule': 'one evaluation = one CBMC query (harness x bound parameters), discharged over ALL values of its symbolic inputs; '
                    'non-trivial = the query has >=1 property obligation besides its reachability witness, the witness (an assert(0) at the end of the '
                    'harness) was shown reachable by the solver, and every obligation got a definite verdict',
            'samples': samples,
            'obligations': n_ob,
            'discharged': sum(r['obligations'] - len(r['failed']) for r in results if r['status'] in ('OK', 'VIOLATION', 'INCONCLUSIVE')),
            'traces_validated_against_impl': sum(len(r['failed']) for r in results),
            'functions_encoded': sorted(set(sum([q.get('functions', []) for q in qs], []))),
            'bounds': meta.get('bounds', {}).get(tier, meta.get('bounds')),
            'outside_bounds': meta.get('outside', ''),
            'stubs': meta.get('stubs', []),
            'solver_s': round(sum(r['solver_s'] for r in results), 2),
            'symex_s': round(sum(r.get('symex_s', 0.0) for r in results), 2),
            'vccs': sum(r.get('vccs') or 0 for r in results),
            'sat_vars_max': max([r.get('sat_vars', 0) for r in results] or [0]),
            'source_hashes': sc.hashes,
            'unconfirmable_ub': sorted(set(sum([r.get('unconfirmable_ub', []) for r in results], []))),
            'inconclusive': [{'query': r['id'], 'status': r['status'], 'notes': r['notes'][:2], 'failed': r['failed'][:3], 'witness_missing': r['witness_missing']} for r in problems],
            'known_findings': [k['text'] for k, v in known_hit],
            'explanation': meta.get('explanation', ''),
            'c20': c20_info,
        },
        'assumptions': meta.get('assumptions', []),
        'wall_s': round(time.time() - t0, 2),
        'violations': len(viol),
    }
    if not ev['coverage']['explanation']:
        del ev['coverage']['explanation']
    if ev['coverage']['c20'] is None:
        del ev['coverage']['c20']
    os.makedirs(EVID, exist_ok=True)
    with open(os.path.join(EVID, pid + '.json'), 'w') as f:
        json.dump(ev, f, indent=1)
    for k, v in known_hit:
        print('KNOWN-FINDING: property=%s %s' % (pid, k['text']))
    for r, v in viol:
        print('VIOLATION property=%s replay=%s' % (pid, v['replay']))
        print('  query=%s obligation=%s "%s" (%s line %s) native=%s' % (r['id'], v['property'], v['description'], v['function'], v['line'], v['native']))
        if v['detail']:
            print('  ' + v['detail'].strip().replace('\n', '\n  ')[:800])
    for r in problems:
        print('ERROR query=%s status=%s %s' % (r['id'], r['status'], ' | '.join(n[:400] for n in r['notes'])))
        for fl in r['failed'][:3]:
            print('  not reproduced natively: %s "%s" (%s line %s) native=%s %s' % (fl['property'], fl['description'], fl['function'], fl['line'], fl['native'], fl['detail'][:200]))
        if r['witness_missing']:
            print('  witness not reachable: %s' % r['witness_missing'])
    print('%s %s: %d queries, %d obligations, %d violations, %d known, %d errors, %.1fs' % (pid, tier, len(results), n_ob, len(viol), len(known_hit), len(problems), time.time() - t0))
    if viol:
        return 1
    if problems or not results:
        return 2
    return 0


def cmd_replay(args):
    import queries
    if open(args.file).readline().startswith('#vf-c20'):
        # C20 findings are confirmed by the native thread driver, not by a harness replay
        import c20
        sc = Scratch()
        try:
            conf = c20.confirm(ROOT, sc.src, sc.dir)
            print(json.dumps(conf, indent=1, default=str))
            return 1 if (conf.get('tsan', ('', ''))[0] == 'race' or conf.get('results', ('', ''))[0] == 'mismatch') else 0
        finally:
            sc.close()
    hdr = {}
    for l in open(args.file):
        if l.startswith('#vf-replay'):
            for kv in l.split()[1:]:
                k, v = kv.split('=', 1); hdr[k] = v
        elif l.startswith('#defs'):
            hdr['defs'] = l.split()[1:]
        elif l.startswith('#link'):
            hdr['link'] = l.split()[1:]
        elif l.startswith('#property'):
            hdr['property'] = l[len('#property '):].strip()
        elif l.startswith('#stub'):
            hdr['stub'] = l.split()[1:]
    q = {'id': hdr['query'], 'src': hdr['harness'], 'defs': [d for d in hdr.get('defs', []) if not d.startswith('-DVF_LIB=') and not d.startswith('-DVF_STUB_')], 'link': hdr.get('link', [])}
    if len(hdr.get('stub', [])) > 1:
        q['stub_lib'] = hdr['stub'][0]; q['stub'] = hdr['stub'][1:]
    sc = Scratch()
    try:
        prepare(sc, q)
        exe, err = native_build(sc, q, 'replay')
        if exe is None:
            print('native build failed:\n' + err); return 2
        verdict, detail = native_run(exe, args.file)
        print('replay of %s (%s): %s' % (hdr['query'], hdr.get('property', ''), verdict))
        if detail:
            print(detail)
        return 1 if verdict in ('fail', 'timeout') else 0
    finally:
        sc.close()


def cmd_list(args):
    import queries
    for q in queries.QUERIES:
        print(q['prop'], q['id'], q.get('tiers', ('quick', 'thorough')), q['src'], ' '.join(q.get('defs', [])))


def main():
    ap = argparse.ArgumentParser()
    sub = ap.add_subparsers(dest='cmd')
    c = sub.add_parser('check'); c.add_argument('property'); c.add_argument('--tier'); c.add_argument('--only'); c.add_argument('--keep', action='store_true')
    c.add_argument('-j', '--jobs', type=int, default=int(os.environ.get('VF_JOBS', '16'))); c.add_argument('-v', '--verbose', action='store_true')
    r = sub.add_parser('replay'); r.add_argument('file')
    sub.add_parser('list')
    args = ap.parse_args()
    if args.cmd == 'check':
        sys.exit(cmd_check(args))
    if args.cmd == 'replay':
        sys.exit(cmd_replay(args))
    if args.cmd == 'list':
        sys.exit(cmd_list(args) or 0)
    ap.print_help(); sys.exit(2)


if __name__ == '__main__':
    main()
