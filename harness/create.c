/* Base cases of the edit induction: every constructor yields a well-formed detached item, and the bulk array constructors
 * (count 0..CNT) yield a well-formed array with the given values in order - or NULL with nothing left allocated when a
 * (symbolic) allocation request is refused. */
#ifndef CNT
#define CNT 3
#endif
#ifndef TS
#define TS 2
#endif
#define VF_MAXSZ 15
#define VF_INPUTS(X) X(unsigned char, which, ) X(int, count, ) X(int, iv, [CNT + 1]) X(double, dv, [CNT + 1]) X(float, fv, [CNT + 1]) X(unsigned char, sv, [CNT + 1][TS + 1]) \
    X(unsigned char, fail_at, ) X(unsigned char, nullarg, )
#include "vf.h"
#include "vf_str.h"
#include "vf_mem.h"
#define malloc vf_malloc
#define free vf_free
#define realloc vf_realloc
#include "cJSON.c"
#undef malloc
#undef free
#undef realloc
#include "vf_frame.h"
#define INJECTED (vf_fail_at != 0 && vf_nreq >= vf_fail_at)
static int sat(double d) { return d >= INT_MAX ? INT_MAX : d <= (double)INT_MIN ? INT_MIN : (int)d; }

int main(VF_MAIN_ARGS)
{
    cJSON *r = 0, *c, *last; unsigned i, n; int w; const char *strs[CNT + 1]; long want = 0;
    VF_INIT();
    for (i = 0; i <= CNT; i++) { IN.sv[i][TS] = 0; strs[i] = (const char *)IN.sv[i]; VF_ASSUME(IN.dv[i] == IN.dv[i] && IN.fv[i] == IN.fv[i]); }
    VF_ASSUME(IN.count >= -1 && IN.count <= CNT);
    vf_fail_at = IN.fail_at;
    VF_FRAME_BEGIN();
#ifdef WHICH
    w = WHICH;                  /* bulk constructors: one query each */
#else
    w = IN.which % 12;          /* the twelve single-item constructors */
#endif
    switch (w) {
    case 0: r = cJSON_CreateNull(); break;      case 1: r = cJSON_CreateTrue(); break;       case 2: r = cJSON_CreateFalse(); break;
    case 3: r = cJSON_CreateBool(IN.count & 1); break;
    case 4: r = cJSON_CreateNumber(IN.dv[0]); break;
    case 5: r = cJSON_CreateString(strs[0]); break;                case 6: r = cJSON_CreateRaw(strs[0]); break;
    case 7: r = cJSON_CreateArray(); break;      case 8: r = cJSON_CreateObject(); break;
    case 9: r = cJSON_CreateStringReference(strs[0]); break;
    case 10: r = cJSON_CreateObjectReference((cJSON *)strs); break;   case 11: r = cJSON_CreateArrayReference((cJSON *)strs); break;
    case 12: r = cJSON_CreateIntArray((IN.nullarg & 1) ? (const int *)0 : IN.iv, IN.count); break;
    case 13: r = cJSON_CreateFloatArray((IN.nullarg & 1) ? (const float *)0 : IN.fv, IN.count); break;
    case 14: r = cJSON_CreateDoubleArray((IN.nullarg & 1) ? (const double *)0 : IN.dv, IN.count); break;
    default: r = cJSON_CreateStringArray((IN.nullarg & 1) ? (const char *const *)0 : strs, IN.count); break;
    }
    VF_FRAME_END(0);
    if (r == 0) {
        if (w >= 12 && ((IN.nullarg & 1) || IN.count < 0)) VF_AP(6, vf_nreq == 0, "C06 NULL input or negative count is refused");
        else VF_AP(8, INJECTED, "C08 constructors fail only after a refused request");
        VF_AP(8, vf_live == 0, "C08 failed constructor leaves nothing allocated");
        VF_WITNESS("null");
    } else {
        VF_AP(8, !INJECTED, "C08 success impossible after a refused request");
        VF_AP(6, r->next == 0 && r->prev == 0 && r->string == 0, "C06 new items have no sibling links and no key");
        want = 1;
        if (w <= 3) VF_AP(6, r->type == (w == 0 ? cJSON_NULL : w == 1 ? cJSON_True : w == 2 ? cJSON_False : ((IN.count & 1) ? cJSON_True : cJSON_False)) && r->child == 0 && r->valuestring == 0, "C06 literal constructors");
        if (w == 4) VF_AP(6, r->type == cJSON_Number && r->valuedouble == IN.dv[0] && r->valueint == sat(IN.dv[0]), "C06 number constructor stores the double and its saturated integer view");
        if (w == 5 || w == 6) { VF_AP(6, r->type == (w == 5 ? cJSON_String : cJSON_Raw) && r->valuestring != 0 && r->valuestring != strs[0] && strcmp(r->valuestring, strs[0]) == 0, "C06 string/raw constructors copy the text"); want = 2; }
        if (w == 7 || w == 8) VF_AP(6, r->type == (w == 7 ? cJSON_Array : cJSON_Object) && r->child == 0, "C06 empty containers");
        if (w == 9) VF_AP(7, r->type == (cJSON_String | cJSON_IsReference) && r->valuestring == strs[0], "C07 string reference borrows the text and is flagged");
        if (w == 10 || w == 11) VF_AP(7, r->type == ((w == 10 ? cJSON_Object : cJSON_Array) | cJSON_IsReference) && r->child == (cJSON *)strs, "C07 container reference borrows the children and is flagged");
        if (w >= 12) {
            VF_AP(6, r->type == cJSON_Array && IN.count >= 0 && !(IN.nullarg & 1), "C06 bulk constructor result is an array");
            n = 0; last = 0;
            for (c = r->child; c != 0 && n <= CNT; c = c->next) {
                if (n > 0) VF_AP(6, c->prev == last, "C06 each backward link mirrors a forward link");
                VF_AP(6, c->string == 0 && c->child == 0, "C06 elements are plain values");
                if (w == 12) VF_AP(6, c->type == cJSON_Number && c->valueint == IN.iv[n] && c->valuedouble == (double)IN.iv[n], "C06 int array element value");
                if (w == 13) VF_AP(6, c->type == cJSON_Number && c->valuedouble == (double)IN.fv[n], "C06 float array element value");
                if (w == 14) VF_AP(6, c->type == cJSON_Number && c->valuedouble == IN.dv[n] && c->valueint == sat(IN.dv[n]), "C06 double array element value");
                if (w == 15) { VF_AP(6, c->type == cJSON_String && c->valuestring != 0 && strcmp(c->valuestring, strs[n]) == 0, "C06 string array element value"); want++; }
                want++; last = c; n++;
            }
            VF_AP(6, (int)n == IN.count, "C06 bulk constructor creates exactly count elements");
            if (n > 0) VF_AP(6, r->child->prev == last, "C06 the first child's backward link designates the last child"); else VF_AP(6, r->child == 0, "C06 count 0 gives an empty array");
            VF_WITNESS("bulk");
        }
        VF_AP(7, vf_live == want, "C07 live blocks == blocks owned by the new item");
        VF_WITNESS("created");
    }
    VF_WITNESS("end");
    return 0;
}
