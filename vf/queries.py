"""Query registry: every entry is one CBMC query (harness source x bound parameters)."""
QUERIES = []
PROPS = {}

def Q(prop, qid, src, defs=(), unwind=None, unwindset=(), tiers=('quick', 'thorough'), link=(), witnesses=(), functions=(), **kw):
    d = dict(prop=prop, id='%s.%s' % (prop, qid), src=src, defs=list(defs), unwind=unwind, unwindset=list(unwindset), tiers=tiers,
             link=list(link), witnesses=list(witnesses), functions=list(functions))
    d.update(kw)
    QUERIES.append(d)

# ------------------------------------------------------------------ C13 minify
PROPS['C13'] = dict(
    level='model_checking',
    bounds={'quick': 'every zero-terminated string of length L = 0..7 (all 255^L contents), buffer object of exactly L+1 bytes',
            'thorough': 'L = 0..10'},
    outside='strings longer than the bound; the claim "result parses to an equal tree" is decided through the reference minifier, not by running the parser',
    stubs=[], assumptions=['CBMC memory model (byte-precise objects); strlen/strcmp/memcpy are CBMC built-in models'])
for L in range(0, 11):
    Q('C13', 'minify.L%d' % L, 'harness/c13_minify.c', defs=['-DL=%d' % L], unwind=L + 3,
      tiers=('quick', 'thorough') if L <= 7 else ('thorough',), cost=L,
      functions=['cJSON_Minify', 'minify_string', 'skip_oneline_comment', 'skip_multiline_comment'])
