/* vf.h - common harness layer: one source, two builds.
 *   CBMC build  : inputs are nondeterministic, VF_ASSERT is a solver obligation.
 *   -DVF_NATIVE : inputs are loaded from a replay file (argv[1]), VF_ASSERT aborts, real libc, ASan/UBSan.
 * A harness defines VF_INPUTS(X) as a list of X(type, name, array_suffix) BEFORE including this file.
 * All harness nondeterminism lives in the global record IN, so that a solver model is a replay file.
 */
#ifndef VF_H
#define VF_H
#include <stddef.h>
#include <stdlib.h>
#include <string.h>
#include <limits.h>
#include <float.h>
#include <math.h>
#include <stdio.h>
#include "cJSON.h"

#ifndef VF_INPUTS
#error "define VF_INPUTS(X) before including vf.h"
#endif

#define VF_FIELD(type, name, suffix) type name suffix;
struct vf_in { VF_INPUTS(VF_FIELD) char vf_pad_; };
struct vf_in IN;

#ifdef VF_NATIVE
/* ---------------------------------------------------------------- native replay */
#include <unistd.h>
#define VF_ASSUME(c) do { if (!(c)) { fprintf(stderr, "VF_ASSUME not satisfied: %s (%s:%d)\n", #c, __FILE__, __LINE__); exit(77); } } while (0)
static void vf_dump_inputs(void);
#define VF_ASSERT(c, msg) do { if (!(c)) { fprintf(stderr, "VF_ASSERT failed: %s (%s:%d)\n", msg, __FILE__, __LINE__); if (getenv("VF_SEARCH")) vf_dump_inputs(); fflush(stderr); _exit(1); } } while (0)
#define VF_WITNESS(name) do { } while (0)
#define VF_BOUND(c, msg) do { if (!(c)) { fprintf(stderr, "VF_BOUND exceeded: %s\n", msg); exit(78); } } while (0)
static int vf_hexval(int c) { return (c >= '0' && c <= '9') ? c - '0' : (c >= 'a' && c <= 'f') ? c - 'a' + 10 : (c >= 'A' && c <= 'F') ? c - 'A' + 10 : -1; }
static const char *vf_replay_file;
static void vf_load_field(const char *name, void *dst, size_t size)
{
    FILE *f = fopen(vf_replay_file, "r"); static char line[1 << 16];
    if (!f) { fprintf(stderr, "cannot open replay file %s\n", vf_replay_file); exit(79); }
    while (fgets(line, sizeof line, f)) {
        size_t nl = strlen(name), i = 0; char *p;
        if (strncmp(line, name, nl) != 0 || line[nl] != ' ') continue;
        p = line + nl + 1;
        while (i < size && vf_hexval(p[0]) >= 0 && vf_hexval(p[1]) >= 0) { ((unsigned char *)dst)[i++] = (unsigned char)(vf_hexval(p[0]) * 16 + vf_hexval(p[1])); p += 2; }
        break;
    }
    fclose(f);
}
#define VF_LOAD(type, name, suffix) vf_load_field(#name, &IN.name, sizeof IN.name);
static void vf_inputs(int argc, char **argv)
{
    if (argc < 2) { fprintf(stderr, "usage: %s <replay-file>\n", argv[0]); exit(79); }
    vf_replay_file = argv[1];
    memset(&IN, 0, sizeof IN);
    VF_INPUTS(VF_LOAD)
}
#define VF_DUMP(type, name, suffix) { size_t i_; fprintf(stderr, "VF_INPUT %s ", #name); for (i_ = 0; i_ < sizeof IN.name; i_++) fprintf(stderr, "%02x", ((unsigned char *)&IN.name)[i_]); fprintf(stderr, "\n"); }
static void vf_dump_inputs(void) { VF_INPUTS(VF_DUMP) }
#define VF_MAIN_ARGS int argc, char **argv
#define VF_INIT() vf_inputs(argc, argv)
#define VF_NONNULL(p) do { if (!(p)) { fprintf(stderr, "out of memory in harness\n"); exit(79); } } while (0)
#else
/* ---------------------------------------------------------------- CBMC */
#define VF_ASSUME(c) __CPROVER_assume(c)
#define VF_ASSERT(c, msg) __CPROVER_assert((c), "VF:" msg)
#define VF_WITNESS(name) __CPROVER_assert(0, "VF_WITNESS:" name)
#define VF_BOUND(c, msg) __CPROVER_assert((c), "VF_BOUND:" msg)
static void vf_inputs(void) { struct vf_in vf_nondet_in; IN = vf_nondet_in; }
#define VF_MAIN_ARGS void
#define VF_INIT() vf_inputs()
#define VF_NONNULL(p) __CPROVER_assume((p) != 0)
#endif

/* property-tagged assertions: a check of property Cnn is built with -DVF_ONLY=nn, which keeps only its own
 * obligations (CBMC's built-in memory-safety checks stay on in every build) */
#ifndef VF_ONLY
#define VF_ONLY 0
#endif
#define VF_ON(n) (VF_ONLY == 0 || VF_ONLY == (n))
#define VF_AP(n, c, msg) do { if (VF_ONLY == 0 || VF_ONLY == (n)) { VF_ASSERT(c, msg); } } while (0)

/* harness-side allocation (never fails, not counted) */
static void *vf_hmalloc(size_t n)
{
    void *p = malloc(n ? n : 1);
    VF_NONNULL(p);
    return p;
}

/* exact-size heap copy of n bytes (so that CBMC bounds checks / ASan redzones see the true end) */
static void *vf_exact(const void *src, size_t n)
{
    unsigned char *p = (unsigned char *)vf_hmalloc(n);
    if (n) memcpy(p, src, n);
    return p;
}

/* ---------------------------------------------------------------- library-side allocator:
 * counter ledger, size split (no object of symbolic size), failure injection */
#ifndef VF_MAXSZ
#define VF_MAXSZ 24
#endif
static long vf_live;            /* blocks handed out and not yet released */
static long vf_nreq;            /* allocation requests seen */
static long vf_fail_at;         /* request number that is refused (0 = none) */
static long vf_nfree;           /* non-NULL releases seen */
static long vf_nrealloc;        /* realloc calls seen */

#ifdef VF_NATIVE
static char *vf_zero_base[64]; static char *vf_zero_ptr[64]; static int vf_nzero;
static void *vf_zero_unmap(void *p) { int i; for (i = 0; i < vf_nzero; i++) if (p != 0 && vf_zero_ptr[i] == (char *)p) { vf_zero_ptr[i] = 0; return vf_zero_base[i]; } return p; }
#endif
static void *vf_split_alloc(void *old, size_t n)
{
#ifdef VF_NATIVE
    void *q;
    if (n == 0 && old == 0) {
        /* ASan's malloc(0) is one byte long, which would hide accesses to a zero-size block: hand out the END of a block instead */
        char *base = (char *)malloc(16); VF_NONNULL(base);
        if (vf_nzero < 64) { vf_zero_base[vf_nzero] = base; vf_zero_ptr[vf_nzero] = base + 16; vf_nzero++; }
        return base + 16;
    }
    old = vf_zero_unmap(old);
    q = old ? realloc(old, n) : malloc(n);
    VF_NONNULL(q);
    return q;
#else
    void *p = 0; int done = 0;
    if (n == sizeof(cJSON)) { p = old ? realloc(old, sizeof(cJSON)) : malloc(sizeof(cJSON)); done = 1; }
#ifdef VF_EXTRASZ
    else if (n == (VF_EXTRASZ)) { p = old ? realloc(old, (VF_EXTRASZ)) : malloc((VF_EXTRASZ)); done = 1; }
#endif
#define VF_SZ(k) else if (n == (k)) { p = old ? realloc(old, (k)) : malloc(k); done = 1; }
#define VF_SZ8(b) VF_SZ((b)) VF_SZ((b) + 1) VF_SZ((b) + 2) VF_SZ((b) + 3) VF_SZ((b) + 4) VF_SZ((b) + 5) VF_SZ((b) + 6) VF_SZ((b) + 7)
#ifdef VF_SZ_LIST
    VF_SZ_LIST(VF_SZ)          /* harness-specific list of request sizes (fewer branches than the full range) */
#else
    VF_SZ8(0)
#if VF_MAXSZ >= 8
    VF_SZ8(8)
#endif
#if VF_MAXSZ >= 16
    VF_SZ8(16)
#endif
#if VF_MAXSZ >= 24
    VF_SZ8(24)
#endif
#if VF_MAXSZ >= 32
    VF_SZ8(32) VF_SZ8(40)
#endif
#if VF_MAXSZ >= 48
    VF_SZ8(48) VF_SZ8(56)
#endif
#if VF_MAXSZ >= 64
    VF_SZ8(64) VF_SZ8(72) VF_SZ8(80) VF_SZ8(88)
#endif
#if VF_MAXSZ >= 96
    VF_SZ8(96) VF_SZ8(104) VF_SZ8(112) VF_SZ8(120)
#endif
#endif
    VF_BOUND(done, "allocation size outside the size-split range");
    __CPROVER_assume(done);
    __CPROVER_assume(p != 0);
    return p;
#endif
}

static void *vf_malloc(size_t n)
{
    vf_nreq++;
    if (vf_nreq == vf_fail_at) return 0;
    vf_live++;
    return vf_split_alloc(0, n);
}
static void vf_free(void *p)
{
    if (p == 0) return;
    vf_nfree++;
    vf_live--;
#ifdef VF_NATIVE
    p = vf_zero_unmap(p);
#endif
    free(p);
}
static void *vf_realloc(void *p, size_t n)
{
    vf_nrealloc++;
    vf_nreq++;
    if (vf_nreq == vf_fail_at) return 0;
    if (p == 0) vf_live++;
    return vf_split_alloc(p, n);
}

/* harness-side construction of memory that the library is going to own (counted, never fails) */
static void *vf_own(size_t n)
{
    void *p = vf_hmalloc(n);
    vf_live++;
    return p;
}

#endif /* VF_H */
