#!/usr/bin/env python3
"""Regenerate /verif/MANIFEST.json from vf/props.py + vf/queries.py (claimed = properties that have registered queries)."""
import json, os, sys
ROOT = os.path.dirname(os.path.dirname(os.path.abspath(__file__)))
sys.path.insert(0, os.path.join(ROOT, 'vf'))
import props, queries
NA = json.load(open(os.path.join(ROOT, 'not_applicable.json'))) if os.path.exists(os.path.join(ROOT, 'not_applicable.json')) else {}
claimed = sorted({q['prop'] for q in queries.QUERIES})
checks = []
for pid in sorted(props.PROPS):
    if pid not in claimed or pid in NA:
        continue
    m = props.PROPS[pid]
    checks.append({
        'property_id': pid,
        'quick_cmd': './check.sh %s quick' % pid,
        'thorough_cmd': './check.sh %s thorough' % pid,
        'evidence_file': '/verif/evidence/%s.json' % pid,
        'replay_cmd_template': 'python3 vf/vf.py replay {path}',
        'engine': 'cbmc',
        'level_claimed': {
            'category': m.get('level', 'model_checking'),
            'text': ('Bounded symbolic checking of the real cJSON source with CBMC: %s. Within the stated bounds the SAT solver discharges every obligation for ALL values of the symbolic inputs; '
                     'quick bounds: %s') % (m['title'], (m.get('bounds') or {}).get('quick', '')),
            'design_ref': m.get('design', 'DESIGN.md'),
        },
        'level_note': 'Outside the claim: %s. Stubs/models that are part of the claim: %s. Trusted: CBMC 6.11 + MiniSat, the C front end (goto-cc), glibc numeric conversion.' % (m.get('outside', ''), '; '.join(m.get('stubs', [])) or 'none'),
        'technique': 'solver-based bounded model checking (CBMC symbolic execution of cJSON.c / cJSON_Utils.c, SAT), assume-guarantee unit decomposition with contract stubs, native ASan/UBSan replay of counterexamples',
    })
man = {
    'version': 1,
    'setup_cmd': 'true',
    'hooks': {'guard': 'DAVEGAMBLE_CJSON_VERIF', 'enable': 'no source hooks are needed: harnesses #include the unmodified cJSON.c / cJSON_Utils.c copied from /repo on every run and rebind callees at source level in a scratch copy',
              'baseline_off_cmd': 'cd /repo && cmake -G Ninja -B _build >/dev/null && cmake --build _build >/dev/null && ctest --test-dir _build -j8 --timeout 900', 'source_commits': [], 'add_only': True},
    'engines': [{'name': 'cbmc', 'path': '/verif/vf/vf.py', 'serves_properties': [c['property_id'] for c in checks],
                 'kind_free_text': 'CBMC 6.11 bounded model checker (goto-cc -> cbmc -> MiniSat) driven by vf/vf.py; registry of queries in vf/queries.py; harnesses in harness/*.c; models and contract stubs in include/*.h'}],
    'checks': checks,
    'notes': 'Every check rebuilds from /repo\'s working tree (sources are copied to a scratch dir under /var/tmp, removed afterwards). exit 0 = all obligations discharged and all reachability witnesses reachable; exit 1 + VIOLATION line = counterexample reproduced natively; exit 2 = inconclusive/bound/timeout (never reported as success). Genuine defects found and repaired: known_findings.txt.',
    'not_applicable': [{'property_id': k, 'reason': v} for k, v in sorted(NA.items())] + [{'property_id': p, 'reason': 'no check registered yet'} for p in sorted(props.PROPS) if p not in claimed and p not in NA],
}
json.dump(man, open(os.path.join(ROOT, 'MANIFEST.json'), 'w'), indent=1)
print('claimed:', [c['property_id'] for c in checks], 'not_applicable:', [n['property_id'] for n in man['not_applicable']])
