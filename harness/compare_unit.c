/* Unit: cJSON_Compare on two nodes with <= K children each, its RECURSIVE call replaced by an oracle eq[i][j] that stands for
 * "child i of a and child j of b denote the same value" (induction hypothesis: correct and symmetric on subtrees).
 * Spec (independent): same kind; booleans/null by kind; numbers equal within relative DBL_EPSILON and a finite number never
 * equals an infinite or NaN one; strings/raw byte-equal; arrays element-wise in order with equal length; objects: same key set
 * (case sensitive or ASCII-case-folded as requested; keys distinct per object after the requested folding) and equal values
 * under each key, regardless of order. Symmetric, false on NULL/invalid, reflexive on valid nodes, ownership flags ignored,
 * arguments never modified. */
#ifndef K
#define K 2
#endif
#define TS 2
#define VF_INPUTS(X) X(int, ta, ) X(int, tb, ) X(unsigned char, na, ) X(unsigned char, nb, ) X(double, da, ) X(double, db, ) X(unsigned char, sa, [TS + 1]) X(unsigned char, sb, [TS + 1]) \
    X(unsigned char, snull, ) X(unsigned char, ka, [K + 1][TS + 1]) X(unsigned char, kb, [K + 1][TS + 1]) X(unsigned char, eq, [K + 1][K + 1]) X(unsigned char, cs, ) X(unsigned char, mode, )
#include "vf.h"
#include "vf_str.h"
#ifndef VF_LIB
#define VF_LIB "cJSON.c"
#endif
#include VF_LIB
#include "vf_frame.h"

static cJSON A, B, ca[K + 1], cb[K + 1]; static unsigned na, nb; static int bad_call;
CJSON_PUBLIC(cJSON_bool) cJSON_Compare(const cJSON * const a, const cJSON * const b, const cJSON_bool case_sensitive)
{
    unsigned i, j;
    if ((case_sensitive != 0) != ((IN.cs & 1) != 0)) { bad_call = 1; return 0; }
    for (i = 0; i < K; i++) for (j = 0; j < K; j++)      /* constant indices only; the object branch also asks in the swapped order */
        if (i < na && j < nb && ((a == &ca[i] && b == &cb[j]) || (a == &cb[j] && b == &ca[i]))) return IN.eq[i][j] & 1;
    bad_call = 1;
    return 0;
}
static int lower(int c) { return (c >= 'A' && c <= 'Z') ? c + 32 : c; }
static int keq(const unsigned char *x, const unsigned char *y, int cs) { size_t i; for (i = 0; i <= TS; i++) { int p = x[i], q = y[i]; if (!cs) { p = lower(p); q = lower(q); } if (p != q) return 0; if (x[i] == 0) return 1; } return 1; }
static int vf_finite(double d) { return d == d && fabs(d) <= DBL_MAX; }

int main(VF_MAIN_ARGS)
{
    unsigned i, j; int cs, ka_, kb_, r, r2, spec = 0, defined = 1, distinct = 1; cJSON sA, sB; char *sa, *sb; const cJSON *pa = &A, *pb = &B;
    VF_INIT();
    cs = IN.cs & 1;
    na = IN.na % (K + 1); nb = IN.nb % (K + 1);
    memset(&A, 0, sizeof A); memset(&B, 0, sizeof B); memset(ca, 0, sizeof ca); memset(cb, 0, sizeof cb);
#if defined(KA) && KA >= 0
    IN.ta = (IN.ta & ~0xFF) | KA;      /* concrete kind of a in this query (flag bits stay symbolic) */
#endif
    A.type = IN.ta; B.type = IN.tb; A.valuedouble = IN.da; B.valuedouble = IN.db;
    IN.sa[TS] = 0; IN.sb[TS] = 0; sa = (char *)vf_exact(IN.sa, TS + 1); sb = (char *)vf_exact(IN.sb, TS + 1);
    A.valuestring = (IN.snull & 1) ? 0 : sa; B.valuestring = (IN.snull & 2) ? 0 : sb;
    for (i = 0; i < na; i++) { ca[i].type = cJSON_NULL; IN.ka[i][TS] = 0; ca[i].string = (char *)IN.ka[i]; if (i) { ca[i - 1].next = &ca[i]; ca[i].prev = &ca[i - 1]; } }
    for (i = 0; i < nb; i++) { cb[i].type = cJSON_NULL; IN.kb[i][TS] = 0; cb[i].string = (char *)IN.kb[i]; if (i) { cb[i - 1].next = &cb[i]; cb[i].prev = &cb[i - 1]; } }
    if (na) { A.child = &ca[0]; ca[0].prev = &ca[na - 1]; }
    if (nb) { B.child = &cb[0]; cb[0].prev = &cb[nb - 1]; }
#if defined(KA) && KA >= 0
    ka_ = KA; kb_ = IN.tb & 0xFF;
#else
    ka_ = IN.ta & 0xFF; kb_ = IN.tb & 0xFF;
#endif
#ifdef KA
    /* split by the kind of a (one query per class, together they cover every kind byte) */
    VF_ASSUME(KA == -1 ? (ka_ != cJSON_Number && ka_ != cJSON_Array && ka_ != cJSON_Object) : ka_ == KA);
#endif
    /* precondition of the property: keys distinct per object (after folding when case-insensitive) */
#ifdef DUPKEYS
    /* repeated member names allowed: only the unambiguous part of the property is then decided (objects with different key SETS are unequal) */
    if (ka_ == cJSON_Object) for (i = 0; i < na; i++) for (j = i + 1; j < na; j++) if (keq(IN.ka[i], IN.ka[j], cs)) distinct = 0;
    if (kb_ == cJSON_Object) for (i = 0; i < nb; i++) for (j = i + 1; j < nb; j++) if (keq(IN.kb[i], IN.kb[j], cs)) distinct = 0;
#else
    if (ka_ == cJSON_Object) for (i = 0; i < na; i++) for (j = i + 1; j < na; j++) VF_ASSUME(!keq(IN.ka[i], IN.ka[j], cs));
    if (kb_ == cJSON_Object) for (i = 0; i < nb; i++) for (j = i + 1; j < nb; j++) VF_ASSUME(!keq(IN.kb[i], IN.kb[j], cs));
#endif
    if ((IN.mode % 4) == 1) pa = 0; else if ((IN.mode % 4) == 2) pb = 0; else if ((IN.mode % 4) == 3) { pb = &A; }
    sA = A; sB = B;

    VF_FRAME_BEGIN();
    r = cJSON_Compare__real(pa, pb, cs);
    VF_FRAME_END(0);

    VF_AP(12, sA.type == A.type && sA.child == A.child && sA.valuestring == A.valuestring && sA.next == A.next && sA.prev == A.prev && sA.string == A.string && sB.type == B.type && sB.child == B.child && sB.valuestring == B.valuestring && memcmp(sa, IN.sa, TS + 1) == 0 && memcmp(sb, IN.sb, TS + 1) == 0, "C12 compare never modifies its arguments");
    VF_AP(12, !bad_call, "C12 recursion only pairs a child of a with a child of b, with the same case flag");
    if (pa == 0 || pb == 0) { VF_AP(12, !r, "C12 NULL compares false"); VF_WITNESS("null"); }
    else if (pb == &A) {
        int valid = ka_ == cJSON_False || ka_ == cJSON_True || ka_ == cJSON_NULL || ka_ == cJSON_Number || ka_ == cJSON_String || ka_ == cJSON_Raw || ka_ == cJSON_Array || ka_ == cJSON_Object;
        VF_AP(12, r == valid, "C12 a valid node equals itself, an invalid one equals nothing");
        VF_WITNESS("same");
    } else {
        if (ka_ != kb_) spec = 0;
        else switch (ka_) {
        case cJSON_False: case cJSON_True: case cJSON_NULL: spec = 1; break;
        case cJSON_Number:
            if (vf_finite(IN.da) && vf_finite(IN.db)) { double m = fabs(IN.da) > fabs(IN.db) ? fabs(IN.da) : fabs(IN.db); spec = fabs(IN.da - IN.db) <= m * DBL_EPSILON; }
            else if (vf_finite(IN.da) != vf_finite(IN.db)) spec = 0;          /* a finite number never equals an infinite or NaN one */
            else defined = 0;                                           /* both non-finite: not specified */
            break;
        case cJSON_String: case cJSON_Raw:
            if (A.valuestring == 0 || B.valuestring == 0) spec = 0; else spec = keq(IN.sa, IN.sb, 1);
            break;
        case cJSON_Array:
            spec = (na == nb); for (i = 0; i < na && i < nb; i++) if (!(IN.eq[i][i] & 1)) spec = 0;
            break;
        case cJSON_Object:
            spec = 1;
            for (i = 0; i < na; i++) { int f = 0; for (j = 0; j < nb; j++) if (keq(IN.ka[i], IN.kb[j], cs) && (IN.eq[i][j] & 1)) f = 1; if (!f) spec = 0; }
            for (j = 0; j < nb; j++) { int f = 0; for (i = 0; i < na; i++) if (keq(IN.ka[i], IN.kb[j], cs) && (IN.eq[i][j] & 1)) f = 1; if (!f) spec = 0; }
            break;
        default: spec = 0; break;
        }
        if (!distinct) {
            defined = 0;
            if (ka_ == cJSON_Object && kb_ == cJSON_Object) {
                int differ = 0;
                for (i = 0; i < na; i++) { int f = 0; for (j = 0; j < nb; j++) if (keq(IN.ka[i], IN.kb[j], cs)) f = 1; if (!f) differ = 1; }
                for (j = 0; j < nb; j++) { int f = 0; for (i = 0; i < na; i++) if (keq(IN.ka[i], IN.kb[j], cs)) f = 1; if (!f) differ = 1; }
                if (differ) { VF_AP(12, !r, "C12 objects whose key sets differ are unequal, repeated member names or not"); VF_WITNESS("dupkeys"); }
            }
        }
        if (defined) { VF_AP(12, (r != 0) == (spec != 0), "C12 compare returns true exactly when the two nodes denote the same JSON value"); VF_WITNESS("spec"); }
        r2 = cJSON_Compare__real(pb, pa, cs);
        if (defined) VF_AP(12, (r != 0) == (r2 != 0), "C12 compare is symmetric");
    }
    VF_WITNESS("end");
    free(sa); free(sb);
    return 0;
}
