#!/bin/bash
# usage: tools_seedtest.sh <seed-dir-name> <property> [vf args...]   apply seeded patch, run check, revert
s=$1; p=$2; shift 2
git -C /repo apply /verif/seeded/$s/patch.diff || exit 3
python3 /verif/vf/vf.py check $p "$@"; rc=$?
git -C /repo checkout -- .
echo "seed=$s prop=$p exit=$rc"
