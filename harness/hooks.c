/* C14: cJSON_InitHooks selection table for every hook configuration, then two allocating calls (cJSON_CreateString, cJSON_Delete,
 * cJSON_malloc/cJSON_free) to see which functions actually serve them. The library TU is compiled with malloc/free/realloc renamed to
 * the "C library" markers below, so a call that bypasses the installed hooks is visible. Histories: two InitHooks calls in sequence
 * (second one symbolic as well, including the NULL reset). */
#define VF_MAXSZ 7
#define VF_INPUTS(X) X(unsigned char, cfg, [2]) X(unsigned char, s, [3])
#include "vf.h"
#include "vf_str.h"
#include "vf_mem.h"
static long libc_m, libc_f, libc_r, user_m, user_f;
static void *libc_malloc(size_t n) { libc_m++; return vf_malloc(n); }
static void libc_free(void *p) { if (p) libc_f++; vf_free(p); }
static void *libc_realloc(void *p, size_t n) { libc_r++; return vf_realloc(p, n); }
static void *user_malloc(size_t n) { user_m++; return vf_malloc(n); }
static void user_free(void *p) { if (p) user_f++; vf_free(p); }
#define malloc libc_malloc
#define free libc_free
#define realloc libc_realloc
#include "cJSON.c"
#undef malloc
#undef free
#undef realloc

int main(VF_MAIN_ARGS)
{
    unsigned step; int cm = 0, cf = 0; cJSON *it; void *blk; char txt[3];
    VF_INIT();
    memcpy(txt, IN.s, 2); txt[2] = 0;
    for (step = 0; step < 2; step++) {
        cJSON_Hooks h; unsigned c = IN.cfg[step] % 5;
        h.malloc_fn = (c & 1) ? user_malloc : 0; h.free_fn = (c & 2) ? user_free : 0;
        if (c == 4) { cJSON_InitHooks(0); cm = 0; cf = 0; } else { cJSON_InitHooks(&h); cm = (c & 1) != 0; cf = (c & 2) != 0; }
        VF_AP(14, global_hooks.allocate == (cm ? user_malloc : libc_malloc), "C14 allocation hook: the user's function if given, else the C library's");
        VF_AP(14, global_hooks.deallocate == (cf ? user_free : libc_free), "C14 release hook: the user's function if given, else the C library's");
        VF_AP(14, global_hooks.reallocate == ((!cm && !cf) ? libc_realloc : 0), "C14 realloc is available only when both hooks are the C library's");
    }
    libc_m = libc_f = libc_r = user_m = user_f = 0;
    it = cJSON_CreateString(txt);
    VF_AP(14, it != 0 && (cm ? (user_m == 2 && libc_m == 0) : (libc_m == 2 && user_m == 0)), "C14 every block the library obtains comes from the installed allocation function");
    cJSON_Delete(it);
    VF_AP(14, cf ? (user_f == 2 && libc_f == 0) : (libc_f == 2 && user_f == 0), "C14 every block the library releases goes to the installed release function, once");
    blk = cJSON_malloc(4); cJSON_free(blk);
    VF_AP(14, (cm ? user_m : libc_m) == 3 && (cf ? user_f : libc_f) == 3 && libc_r == 0, "C14 cJSON_malloc / cJSON_free use the installed hooks");
    VF_AP(14, vf_live == 0, "C14 ledger balanced");
    VF_WITNESS("end");
    return 0;
}
