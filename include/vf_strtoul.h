#ifndef VF_STRTOUL_H
#define VF_STRTOUL_H
/* ------------------------------------------------------------------ strtoul (bases 10 and 16, C11 7.22.1.4: white space, sign, optional 0x prefix for base 16) - exact model, so that code which
 * switches to the C library for index parsing is still decided rather than left to an unconstrained return value */
#ifndef VF_NATIVE
static int vf_xdig(char c) { return (c >= '0' && c <= '9') ? c - '0' : (c >= 'a' && c <= 'f') ? c - 'a' + 10 : (c >= 'A' && c <= 'F') ? c - 'A' + 10 : -1; }
static unsigned long vf_strtoul(const char *s, char **end, int base)
{
    size_t i = 0; unsigned long v = 0; int neg = 0, any = 0, sat = 0;
    unsigned long b = base == 16 ? 16UL : 10UL;
    VF_BOUND(base == 10 || base == 16, "strtoul base other than 10 or 16 is not modelled");
    while (s[i] == ' ' || (s[i] >= '\t' && s[i] <= '\r')) i++;
    if (s[i] == '+' || s[i] == '-') { neg = s[i] == '-'; i++; }
    if (base == 16 && s[i] == '0' && (s[i + 1] == 'x' || s[i + 1] == 'X') && vf_xdig(s[i + 2]) >= 0) i += 2;
    while (vf_xdig(s[i]) >= 0 && (unsigned long)vf_xdig(s[i]) < b) {
        unsigned long d = (unsigned long)vf_xdig(s[i]);
        if (v > (ULONG_MAX - d) / b) sat = 1; else v = v * b + d;
        any = 1; i++;
    }
    if (end) *end = (char *)(any ? s + i : s);
    if (!any) return 0;
    if (sat) return ULONG_MAX;
    return neg ? (0UL - v) : v;
}
#define strtoul vf_strtoul
#endif
#endif
