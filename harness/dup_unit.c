/* Unit: cJSON_Duplicate_rec on one node with n <= K children, its RECURSIVE call replaced by the contract stub
 *   stub(child, depth, recurse=true): either NULL with the ledger unchanged, or a fresh detached node owning exactly itself.
 * Proves for every nesting depth (induction over the recursion): field copy, reference flag cleared, strings and owned keys
 * copied, constant keys shared, children linked in order with the tail back link, the depth limit is checked BEFORE recursing
 * (so cyclic / over-deep inputs stop after CJSON_CIRCULAR_LIMIT levels), and the fail path releases the node and every child
 * copied so far. The node under test is symbolic (kind, flags, key, string), depth symbolic up to the real limit. */
#ifndef K
#define K 3
#endif
#define TS 1
#define VF_MAXSZ 7
#define VF_INPUTS(X) X(int, type, ) X(unsigned char, nk, ) X(unsigned char, hasstr, ) X(unsigned char, haskey, ) X(unsigned char, str, [TS + 1]) X(unsigned char, key, [TS + 1]) \
    X(int, vi, ) X(double, vd, ) X(unsigned, depth, ) X(unsigned char, recurse, ) X(unsigned char, fail_at, ) X(unsigned char, sub_ok, [K + 1])
#include "vf.h"
#include "vf_str.h"
#include "vf_mem.h"
#define malloc vf_malloc
#define free vf_free
#define realloc vf_realloc
#ifndef VF_LIB
#define VF_LIB "cJSON.c"
#endif
#include VF_LIB
#undef malloc
#undef free
#undef realloc
#define INJECTED (vf_fail_at != 0 && vf_nreq >= vf_fail_at)

static unsigned sub_calls; static const cJSON *sub_arg[K + 1]; static size_t sub_depth[K + 1]; static cJSON *sub_ret[K + 1]; static cJSON_bool sub_rec[K + 1];
cJSON *cJSON_Duplicate_rec(const cJSON *item, size_t depth, cJSON_bool recurse)
{
    unsigned k = sub_calls; cJSON *n;
    VF_BOUND(k <= K, "more recursive calls than children"); VF_ASSUME(k <= K);
    sub_calls++; sub_arg[k] = item; sub_depth[k] = depth; sub_rec[k] = recurse; sub_ret[k] = 0;
    if (!IN.sub_ok[k]) return 0;
    n = (cJSON *)vf_malloc(sizeof(cJSON));
    if (n == 0) return 0;
    memset(n, 0, sizeof *n); n->type = cJSON_NULL;
    sub_ret[k] = n;
    return n;
}

int main(VF_MAIN_ARGS)
{
    cJSON src, kid[K + 1], snap, *copy, *c, *last; unsigned n, i; long live0; char *str = 0, *key = 0; int allok = 1;
    VF_INIT();
    VF_ASSUME(IN.depth <= CJSON_CIRCULAR_LIMIT + 1);
    memset(&src, 0, sizeof src); memset(kid, 0, sizeof kid);
    src.type = IN.type; src.valueint = IN.vi; src.valuedouble = IN.vd;
    VF_ASSUME(IN.vd == IN.vd);
    if (IN.hasstr & 1) { IN.str[TS] = 0; str = (char *)vf_exact(IN.str, TS + 1); src.valuestring = str; }
    if (IN.haskey & 1) { IN.key[TS] = 0; key = (char *)vf_exact(IN.key, TS + 1); src.string = key; }
    n = IN.nk % (K + 1);
    for (i = 0; i < n; i++) { kid[i].type = cJSON_NULL; if (i > 0) { kid[i - 1].next = &kid[i]; kid[i].prev = &kid[i - 1]; } }
    if (n > 0) { src.child = &kid[0]; kid[0].prev = &kid[n - 1]; }
    snap = src;
    live0 = vf_live;
    vf_fail_at = IN.fail_at;

    copy = cJSON_Duplicate_rec__real(&src, IN.depth, IN.recurse & 1);

    VF_AP(11, memcmp(&snap, &src, sizeof src) == 0, "C11 the source node is never modified");
    for (i = 0; i < sub_calls && i <= K; i++) {
        VF_AP(11, sub_arg[i] == &kid[i] && sub_rec[i] && sub_depth[i] > IN.depth, "C11 children are duplicated in order, recursively, at a strictly deeper level");
        VF_AP(11, sub_depth[i] <= CJSON_CIRCULAR_LIMIT, "C11 recursion never goes beyond CJSON_CIRCULAR_LIMIT (cyclic and over-deep structures stop there)");
        if (!sub_ret[i]) allok = 0;
    }
    if (!(IN.recurse & 1)) VF_AP(11, sub_calls == 0, "C11 non-recursive duplicate does not visit the children");
    if (copy) {
        long want = 1;
        VF_AP(8, !INJECTED || allok, "C08 success impossible after a refused request of this node");
        VF_AP(11, copy != &src && copy->next == 0 && copy->prev == 0, "C11 the copy is a new node without sibling links");
        VF_AP(11, copy->type == (IN.type & ~cJSON_IsReference) && copy->valueint == IN.vi && copy->valuedouble == IN.vd, "C11 kind and number copied, reference flag cleared, other flags kept");
        if (str) { VF_AP(11, copy->valuestring != 0 && copy->valuestring != str && strcmp(copy->valuestring, str) == 0, "C11 string copied into an owned block (also when the source only referenced it)"); want++; } else VF_AP(11, copy->valuestring == 0, "C11 no string invented");
        if (key && (IN.type & cJSON_StringIsConst)) VF_AP(11, copy->string == key, "C11 constant key stays shared");
        else if (key) { VF_AP(11, copy->string != 0 && copy->string != key && strcmp(copy->string, key) == 0, "C11 owned key copied"); want++; }
        else VF_AP(11, copy->string == 0, "C11 no key invented");
        if (IN.recurse & 1) {
            VF_AP(11, sub_calls == n && allok, "C11 every child was duplicated");
            VF_AP(11, n == 0 || IN.depth < CJSON_CIRCULAR_LIMIT, "C11 a node at the depth limit that has children is refused");
            last = 0; i = 0;
            for (c = copy->child; c != 0 && i <= K; c = c->next) { VF_AP(11, i < n && c == sub_ret[i], "C11 copied children are linked in order"); if (i > 0) VF_AP(11, c->prev == last, "C11 backward links mirror forward links"); last = c; i++; want++; }
            VF_AP(11, i == n, "C11 all copied children are linked");
            if (n > 0) VF_AP(11, copy->child->prev == last, "C11 the first child's backward link designates the last child");
        } else VF_AP(11, copy->child == 0, "C11 non-recursive duplicate copies the node alone");
        VF_AP(11, vf_live == live0 + want, "C11 the copy owns exactly its new blocks");
        VF_WITNESS("copied");
    } else {
        VF_AP(8, vf_live == live0, "C08 failed duplicate leaves nothing allocated (the node and every child copied so far are released)");
        VF_AP(11, vf_live == live0, "C11 refused duplicate leaks nothing");
        if (allok && !INJECTED) VF_AP(11, (IN.recurse & 1) && n > 0 && IN.depth >= CJSON_CIRCULAR_LIMIT, "C11 without a failure, only the depth limit refuses a duplicate");
        VF_WITNESS("null");
    }
    VF_WITNESS("end");
    return 0;
}
