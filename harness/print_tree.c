/* Print entry points on a symbolic well-formed tree (numbers integer-valued, strings/keys any non-zero bytes).
 * API 0: cJSON_PrintPreallocated(tree, buf, n, fmt) with SYMBOLIC n <= CAP on a CAP byte buffer filled with a symbolic canary
 *        (C09: bytes [n, CAP) untouched; true => exact text; n >= len+1+5 => true; C05: same bytes as the reference)
 * API 1: cJSON_Print / cJSON_PrintUnformatted (fmt symbolic)      API 2: cJSON_PrintBuffered(tree, PRE, fmt)
 * HOOKS 0: default allocator configuration (realloc available)     HOOKS 1: custom hooks (no realloc)
 * Expected text = independent reference printer over the tree MODEL (vf_ref_print.h). */
#ifndef API
#define API 0
#endif
#ifndef HOOKS
#define HOOKS 0
#endif
#ifndef PRE
#define PRE 0
#endif
#ifndef CAP
#define CAP 64
#endif
#ifndef VF_KINDS
#define VF_KINDS 0x7F
#endif
#include "vf_tree.h"
#define VF_INPUTS(X) VF_TREE_INPUTS(X) X(unsigned char, fmt, ) X(unsigned, n, ) X(unsigned, n2, ) X(unsigned char, canary, ) X(unsigned char, fail_at, ) \
    X(unsigned char, g_text, [2][26]) X(double, g_val, ) X(double, strtod_val, ) X(unsigned char, dp, )
#define VF_MAXSZ 127
#define VF_EXTRASZ 256
#include "vf.h"
#include "vf_str.h"
#include "vf_tree.h"
#define VF_MODEL_PRINTF
#include "vf_libc.h"
#define malloc vf_malloc
#define free vf_free
#define realloc vf_realloc
#include "cJSON.c"
#undef malloc
#undef free
#undef realloc
#include "vf_ref_print.h"

int main(VF_MAIN_ARGS)
{
    vf_tree t; cJSON *root; unsigned char ref[CAP + 8]; size_t len; int fmt; long live0;
    VF_INIT(); VF_LIBC_ASSUME();
    VF_TREE_BIND(t, t_);
    root = vf_build(&t);
    fmt = IN.fmt & 1;
    len = ref_print(&t, fmt, ref, sizeof ref);
    VF_ASSUME(!rp_overflow);        /* bound: reference text fits CAP (trees whose text is longer are outside this query) */
    live0 = vf_live;
#if HOOKS == 1
    { cJSON_Hooks h; h.malloc_fn = vf_malloc; h.free_fn = vf_free; cJSON_InitHooks(&h); }
#endif
#if API == 0
    {
        unsigned char *buf = (unsigned char *)vf_hmalloc(CAP); size_t k; cJSON_bool ok; int n = (int)IN.n;
        VF_ASSUME(IN.n <= CAP);
        for (k = 0; k < CAP; k++) buf[k] = IN.canary;
        ok = cJSON_PrintPreallocated(root, (char *)buf, n, fmt);
        for (k = 0; k < CAP; k++) if (k >= (size_t)n) VF_AP(9, buf[k] == IN.canary, "C09 no byte at or behind index n of the caller's buffer is written");
        if (ok) {
            VF_AP(9, len + 1 <= (size_t)n, "C09 true only if the complete text and its terminator fit");
            for (k = 0; k <= len && k < CAP; k++) VF_AP(9, buf[k] == ref[k], "C09 on success the buffer holds exactly the reference text, zero-terminated");
            VF_AP(5, len + 1 <= (size_t)n && memcmp(buf, ref, len + 1) == 0, "C05 preallocated output equals the reference text");
            VF_WITNESS("true");
        } else VF_WITNESS("false");
        if ((size_t)n >= len + 1 + 5) VF_AP(9, ok, "C09 succeeds whenever n is at least five bytes larger than text plus terminator");
        VF_AP(9, vf_live == live0 && vf_nreq == 0, "C09 printing into a caller buffer allocates nothing");
#ifdef MONO
        {   /* success is monotone in n */
            unsigned char *buf2 = (unsigned char *)vf_hmalloc(CAP); cJSON_bool ok2;
            VF_ASSUME(IN.n2 <= CAP && IN.n2 > IN.n);
            ok2 = cJSON_PrintPreallocated(root, (char *)buf2, (int)IN.n2, fmt);
            VF_AP(9, !ok || ok2, "C09 success is monotone in n");
            free(buf2);
        }
#endif
        free(buf);
    }
#else
    {
        char *s;
        vf_fail_at = IN.fail_at ? (long)vf_nreq + IN.fail_at : 0;
#if API == 1
        s = fmt ? cJSON_Print(root) : cJSON_PrintUnformatted(root);
#else
        s = cJSON_PrintBuffered(root, PRE, fmt);
#endif
        if (IN.fail_at == 0) {
            VF_AP(4, s != 0, "C04 printing a well-formed tree succeeds regardless of the initial buffer size / realloc availability");
            VF_AP(5, s != 0, "C05 allocating print variants return text");
        }
        if (s != 0) {
            size_t k;
            for (k = 0; k <= len; k++) { VF_AP(4, (unsigned char)s[k] == ref[k] || 0, "C04 text equals the reference text (which the parse units decode back to the same tree)"); VF_AP(5, ((unsigned char *)s)[k] == ref[k], "C05 text equals the strict reference text; all print variants agree"); }
            VF_AP(7, vf_live == live0 + 1, "C07 exactly the returned text remains allocated");
            VF_AP(14, vf_live == live0 + 1, "C14 the returned text is one live block of the installed allocator");
#if HOOKS == 1
            VF_AP(14, vf_nrealloc == 0, "C14 realloc is never used with custom hooks");
#endif
            cJSON_free(s);
            VF_WITNESS("printed");
        } else {
            VF_AP(8, IN.fail_at != 0, "C08 NULL only after an allocation failure");
        }
        VF_AP(8, vf_live == live0, "C08 nothing allocated during the call remains");
        VF_AP(7, vf_live == live0, "C07 print releases everything but the returned text");
    }
#endif
    VF_WITNESS("end");
    vf_release(root);
    VF_AP(7, vf_live == 0, "C07 tree untouched: harness-side release balances the ledger");
    return 0;
}
