/* Unit: compose_patch / cJSONUtils_AddPatchToArray - builds one RFC 6902 operation object and appends it to the patch array.
 * patches: array with m <= 1 existing elements; operation text concrete per call ("add"/"remove"/"replace"); path <= 2 symbolic bytes;
 * suffix: NULL or <= 2 symbolic bytes (incl. '/' and '~'); value: NULL or a node (cJSON_Duplicate stubbed: fresh node).
 * Expected: {"op": operation, "path": path [+ "/" + RFC 6901-escape(suffix)], ["value": copy]} in that member order, appended last,
 * everything well-formed, all memory from the installed hooks, temporaries released. */
#define VF_SZ_LIST(X) X(1) X(2) X(3) X(4) X(5) X(6) X(7) X(8) X(9)
#define VF_INPUTS(X) X(unsigned char, path, [3]) X(unsigned char, suffix, [3]) X(unsigned char, has_suffix, ) X(unsigned char, has_value, ) X(unsigned char, m, ) X(unsigned char, opsel, ) \
    X(unsigned char, g_text, [2][26]) X(double, g_val, ) X(double, strtod_val, ) X(unsigned char, dp, )
#include "vf.h"
#include "vf_str.h"
#define VF_MODEL_PRINTF
#include "vf_libc.h"
#include "vf_mem.h"
static const cJSON *dup_arg; static cJSON *dup_ret;
static cJSON *vf_stub_duplicate(const cJSON *item, cJSON_bool recurse)
{
    cJSON *n = (cJSON *)cJSON_malloc(sizeof(cJSON));
    VF_ASSERT(item != 0 && recurse, "STUB cJSON_Duplicate: recursive copy of the value");
    VF_ASSUME(n != 0);
    memset(n, 0, sizeof *n); n->type = cJSON_True; n->valueint = 777; dup_arg = item; dup_ret = n;
    return n;
}
#define cJSON_Duplicate vf_stub_duplicate
#include "vf_trap.h"
#include "cJSON_Utils.c"
#include "vf_untrap.h"
#undef cJSON_Duplicate

int main(VF_MAIN_ARGS)
{
    cJSON_Hooks h; cJSON arr, old, val, *p, *m; char path[3], suf[3], expect[12]; const char *ops[3] = { "add", "remove", "replace" }; const char *op; size_t o = 0, k; int has_suffix, has_value; unsigned cnt = 0;
    VF_INIT(); VF_LIBC_ASSUME();
    h.malloc_fn = vf_malloc; h.free_fn = vf_free; cJSON_InitHooks(&h);
    memcpy(path, IN.path, 2); path[2] = 0; memcpy(suf, IN.suffix, 2); suf[2] = 0;
    has_suffix = IN.has_suffix & 1; has_value = IN.has_value & 1; op = ops[IN.opsel % 3];
    memset(&arr, 0, sizeof arr); memset(&old, 0, sizeof old); memset(&val, 0, sizeof val);
    arr.type = cJSON_Array; old.type = cJSON_Object; val.type = cJSON_Number;
    if (IN.m & 1) { arr.child = &old; old.prev = &old; }

    compose_patch(&arr, (const unsigned char *)op, (const unsigned char *)path, has_suffix ? (const unsigned char *)suf : 0, has_value ? &val : 0);

    /* expected path text */
    for (k = 0; path[k]; k++) expect[o++] = path[k];
    if (has_suffix) { expect[o++] = '/'; for (k = 0; suf[k]; k++) { if (suf[k] == '~') { expect[o++] = '~'; expect[o++] = '0'; } else if (suf[k] == '/') { expect[o++] = '~'; expect[o++] = '1'; } else expect[o++] = suf[k]; } }
    expect[o] = 0;
    p = (IN.m & 1) ? old.next : arr.child;
    VF_AP(17, p != 0 && p != &old && p->next == 0 && arr.child->prev == p && ((IN.m & 1) ? (p->prev == &old) : (arr.child == p)), "C17 the operation object is appended as the last element of the patch array (well-formed chain)");
    if (p) {
        VF_AP(17, (p->type & 0xFF) == cJSON_Object, "C17 an operation is an object");
        for (m = p->child; m != 0 && cnt < 4; m = m->next, cnt++) {
            if (cnt == 0) VF_AP(17, m->string && strcmp(m->string, "op") == 0 && (m->type & 0xFF) == cJSON_String && strcmp(m->valuestring, op) == 0, "C17 first member: \"op\" with the operation name");
            if (cnt == 1) VF_AP(17, m->string && strcmp(m->string, "path") == 0 && (m->type & 0xFF) == cJSON_String && strcmp(m->valuestring, expect) == 0, "C17 second member: \"path\" = prefix [+ '/' + RFC 6901-escaped suffix]");
            if (cnt == 2) VF_AP(17, has_value && m->string && strcmp(m->string, "value") == 0 && m == dup_ret && dup_arg == &val, "C17 third member: \"value\" holding a copy of the value");
            if (cnt > 0) VF_AP(17, m->prev != 0 && m->prev->next == m, "C17 operation object is well-formed");
        }
        VF_AP(17, cnt == (has_value ? 3u : 2u) && m == 0, "C17 exactly op, path and (if given) value");
        VF_AP(17, vf_live == 1 + 2 + 2 + 2 + (has_value ? 2 : 0), "C17 only the operation object stays allocated (path buffer released)");
        VF_WITNESS("composed");
    }
    compose_patch(0, (const unsigned char *)op, (const unsigned char *)path, 0, 0);
    compose_patch(&arr, 0, (const unsigned char *)path, 0, 0);
    VF_AP(17, (p ? p->next == 0 : 1), "C17 NULL arguments compose nothing");
    VF_WITNESS("end");
    return 0;
}
