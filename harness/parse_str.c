/* Unit: parse_string (+ utf16_literal_to_utf8, parse_hex4) on a buffer object of exactly M bytes, any offset.
 * TEMPLATE=1 fixes the skeleton "\uHHHH" (M=8), TEMPLATE=2 "\uHHHH\uHHHH" (M=14) with all hex digits symbolic.
 * C01: no access outside the M byte object / the output block; input not written; allocation balanced.
 * C02: strict RFC 8259 literal (no \u0000) => accepted, decoded bytes == reference decoder, offset just after the quote.
 * C03: literal outside the lenient dialect => rejected, nothing allocated remains, item untouched.
 * C08: the single allocation may fail (IN.fail): then false and nothing remains.
 * C10: offset <= length afterwards. */
#ifndef M
#define M 6
#endif
#define VF_MAXSZ (M + 1)
#define VF_INPUTS(X) X(unsigned char, b, [M]) X(unsigned, off, ) X(unsigned char, fail, )
#include "vf.h"
#include "vf_str.h"
#include "vf_ref_json.h"
#include "vf_strtoul.h"
#include "cJSON.c"

int main(VF_MAIN_ARGS)
{
    parse_buffer buf; cJSON item; unsigned char *content; cJSON_bool ok; size_t off, k;
    unsigned char ref[M + 4]; size_t reflen = 0, consumed = 0; int cls;
    VF_INIT();
#ifdef TEMPLATE
    VF_ASSUME(IN.off == 0);
    VF_ASSUME(IN.b[0] == '"' && IN.b[1] == '\\' && IN.b[2] == 'u' && IN.b[M - 1] == '"');
#if TEMPLATE == 2
    VF_ASSUME(IN.b[7] == '\\' && IN.b[8] == 'u');
#endif
#endif
    VF_ASSUME(IN.off < M);
    off = IN.off;
    content = (unsigned char *)vf_exact(IN.b, M);
    memset(&buf, 0, sizeof buf); memset(&item, 0, sizeof item);
    buf.content = content; buf.length = M; buf.offset = off;
    buf.hooks.allocate = vf_malloc; buf.hooks.deallocate = vf_free; buf.hooks.reallocate = 0;
    vf_fail_at = (IN.fail & 1) ? 1 : 0;

    ok = parse_string(&item, &buf);

    VF_AP(1, memcmp(content, IN.b, M) == 0, "C01 input not written");
    VF_AP(10, buf.offset <= buf.length, "C10 offset stays inside the buffer");
    if (ok) {
        VF_AP(1, vf_live == 1 && item.valuestring != 0 && item.type == cJSON_String, "C01 success yields exactly one owned string block");
        VF_AP(10, buf.offset > off, "C10 success consumes input");
        VF_AP(8, vf_fail_at == 0, "C08 success impossible when the allocation was refused");
        VF_WITNESS("accepted");
    } else {
        VF_AP(3, vf_live == 0, "C03 rejected string leaves no allocation behind");
        VF_AP(8, vf_live == 0, "C08 failed parse_string leaves no allocation behind");
        VF_AP(3, item.valuestring == 0 && item.type == 0 && item.string == 0, "C03 rejected string leaves the item empty");
    }
    if (VF_ON(2) || VF_ON(3)) {
        cls = ref_string(content + off, M - off, ref, &reflen, &consumed);
        if (cls == REF_STRICT && vf_fail_at == 0) {
            VF_AP(2, ok, "C02 strict RFC 8259 string literal is accepted");
            if (ok) {
                VF_AP(2, buf.offset == off + consumed, "C02 offset is just after the closing quote");
                VF_AP(2, strlen(item.valuestring) == reflen, "C02 decoded length equals the reference");
                for (k = 0; k < reflen && k < M; k++) VF_AP(2, ((unsigned char *)item.valuestring)[k] == ref[k], "C02 decoded bytes equal the reference (escapes, surrogate pairs, UTF-8)");
            }
            VF_WITNESS("strict");
        }
        if (cls == REF_INVALID) {
            VF_AP(3, !ok, "C03 string literal outside the accepted dialect is rejected");
            VF_WITNESS("invalid");
        }
    }
    if (VF_ON(10) && ok && vf_fail_at == 0) {
        /* C10 prefix re-parse: the same literal in a buffer that ENDS at the reported parse end decodes to the same string */
        parse_buffer b2; cJSON it2; unsigned char *c2 = (unsigned char *)malloc(M); size_t e = buf.offset, q;
        VF_NONNULL(c2);
        for (q = 0; q < M; q++) c2[q] = content[q];
        memset(&b2, 0, sizeof b2); memset(&it2, 0, sizeof it2);
        b2.content = c2; b2.length = e; b2.offset = off; b2.hooks = buf.hooks;      /* bytes at and behind e are out of bounds for the parser */
        VF_AP(10, parse_string(&it2, &b2), "C10 the bytes before the parse end form by themselves a string literal that is accepted");
        if (it2.valuestring) { VF_AP(10, b2.offset == e && strcmp(it2.valuestring, item.valuestring) == 0, "C10 ... and decode to the same string with the same end"); vf_free(it2.valuestring); }
        free(c2);
    }
    VF_WITNESS("end");
    if (ok) vf_free(item.valuestring);
    free(content);
    return 0;
}
