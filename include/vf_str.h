/* vf_str.h - exact byte-loop models of C library string functions that CBMC 6.11 has no model for (it would return an unconstrained
 * value), so that code which is rewritten in terms of them is still decided. CBMC build only; include before the library source.
 * The driver gives every loop of these models the largest bound of the query. */
#ifndef VF_STR_H
#define VF_STR_H
#ifndef VF_NATIVE
static size_t vf_strcspn(const char *s, const char *reject)
{
    size_t i = 0, j;
    for (; s[i] != 0; i++) for (j = 0; reject[j] != 0; j++) if (s[i] == reject[j]) return i;
    return i;
}
static size_t vf_strspn(const char *s, const char *accept)
{
    size_t i = 0, j;
    for (; s[i] != 0; i++) { int in = 0; for (j = 0; accept[j] != 0; j++) if (s[i] == accept[j]) in = 1; if (!in) return i; }
    return i;
}
static char *vf_strpbrk(const char *s, const char *accept)
{
    size_t i = vf_strcspn(s, accept);
    return s[i] != 0 ? (char *)s + i : 0;
}
static void *vf_memchr(const void *p, int c, size_t n)
{
    size_t i; const unsigned char *b = (const unsigned char *)p;
    for (i = 0; i < n; i++) if (b[i] == (unsigned char)c) return (void *)(b + i);
    return 0;
}
static char *vf_strstr(const char *h, const char *n)
{
    size_t i, j;
    if (n[0] == 0) return (char *)h;
    for (i = 0; h[i] != 0; i++) { for (j = 0; n[j] != 0 && h[i + j] == n[j]; j++) { } if (n[j] == 0) return (char *)h + i; if (h[i + j] == 0) return 0; }
    return 0;
}
#define strcspn vf_strcspn
#define strspn vf_strspn
#define strpbrk vf_strpbrk
#define memchr vf_memchr
#define strstr vf_strstr
#endif
#endif
