/* C15: JSON Pointer.  Document: root (array or object, symbolic) with <= K children, each a scalar or a container (array or
 * object, symbolic) with <= K scalar children; object keys are TS symbolic bytes (distinct per object; '/', '~', digits, the
 * empty key all occur).  MODE 0: cJSONUtils_GetPointerCaseSensitive(root, p) for EVERY string p of <= P bytes equals an
 * independent RFC 6901 resolver.  MODE 1: for every node, cJSONUtils_FindPointerFromObjectTo(root, node) resolves back to that
 * node under the reference resolver (so it is correctly escaped) and under the library. */
#ifndef K
#define K 2
#endif
#ifndef P
#define P 5
#endif
#ifndef MODE
#define MODE 0
#endif
#define TS 2
#define NN (1 + K + K * K)
#define VF_MAXSZ 47
#define VF_MAXDIGITS 2
#define VF_INPUTS(X) X(unsigned char, kind, [NN]) X(unsigned char, nk, [NN]) X(unsigned char, key, [NN][TS + 1]) X(unsigned char, ptr, [P + 1]) X(unsigned char, target, ) \
    X(unsigned char, g_text, [2][26]) X(double, g_val, ) X(double, strtod_val, ) X(unsigned char, dp, )
#include "vf.h"
#include "vf_str.h"
#define VF_MODEL_PRINTF
#include "vf_libc.h"
#include "vf_mem.h"
#include "cJSON_Utils.c"

static cJSON node[NN]; static unsigned nkids[NN];
static int is_cont(unsigned i) { int t = node[i].type & 0xFF; return t == cJSON_Array || t == cJSON_Object; }

/* ---- independent RFC 6901 resolver over the same document */
static const cJSON *ref_resolve(const unsigned char *p)
{
    unsigned cur = 0; size_t i = 0;
    if (p[0] == 0) return &node[0];
    if (p[0] != '/') return 0;
    while (p[i] == '/') {
        size_t s = i + 1, e = s; unsigned j, found = NN;
        while (p[e] != 0 && p[e] != '/') e++;
        if ((node[cur].type & 0xFF) == cJSON_Array) {
            unsigned long idx = 0; size_t q;
            if (e == s) return 0;                                   /* empty token is not a number */
            if (p[s] == '0' && e > s + 1) return 0;                 /* leading zero */
            for (q = s; q < e; q++) { if (p[q] < '0' || p[q] > '9') return 0; idx = idx * 10 + (unsigned long)(p[q] - '0'); }
            if (idx >= nkids[cur]) return 0;
            found = cur * K + 1 + (unsigned)idx;
        } else if ((node[cur].type & 0xFF) == cJSON_Object) {
            for (j = 0; j < nkids[cur]; j++) {
                const unsigned char *k = (const unsigned char *)node[cur * K + 1 + j].string; size_t q = s, ki = 0; int ok = 1;
                while (q < e && ok) {
                    unsigned char c = p[q];
                    if (c == '~') { if (q + 1 < e && p[q + 1] == '0') c = '~'; else if (q + 1 < e && p[q + 1] == '1') c = '/'; else return 0; q++; }   /* invalid escape: error */
                    if (k[ki] == 0 || k[ki] != c) ok = 0; else ki++;
                    q++;
                }
                if (ok && k[ki] == 0 && found == NN) found = cur * K + 1 + j;
            }
            if (found == NN) return 0;
        } else return 0;
        cur = found; i = e;
    }
    return &node[cur];
}

int main(VF_MAIN_ARGS)
{
    unsigned i, j, a, b;
    VF_INIT(); VF_LIBC_ASSUME();
    memset(node, 0, sizeof node);
    for (i = 0; i < NN; i++) {
        unsigned lvl = i == 0 ? 0 : (i <= K ? 1 : 2); int kind;
        switch (IN.kind[i] % 4) { case 0: kind = cJSON_Array; break; case 1: kind = cJSON_Object; break; case 2: kind = cJSON_Number; break; default: kind = cJSON_String; break; }
        if (i == 0 && kind != cJSON_Array && kind != cJSON_Object) kind = cJSON_Object;
#ifdef SHAPE
        /* concrete skeleton per query: SHAPE = 3*root + child0 with root in {0 array, 1 object}, child0 in {0 array, 1 object, 2 scalar};
         * the other level-1 children are scalars; counts, keys, scalar kinds and the pointer stay symbolic */
        if (i == 0) kind = (SHAPE / 3) ? cJSON_Object : cJSON_Array;
        else if (i == 1) { if (SHAPE % 3 == 0) kind = cJSON_Array; else if (SHAPE % 3 == 1) kind = cJSON_Object; else if (kind == cJSON_Array || kind == cJSON_Object) kind = cJSON_Number; }
        else if (lvl == 1 && (kind == cJSON_Array || kind == cJSON_Object)) kind = cJSON_String;
#endif
        if (lvl == 2 && (kind == cJSON_Array || kind == cJSON_Object)) nkids[i] = 0; else nkids[i] = (kind == cJSON_Array || kind == cJSON_Object) ? IN.nk[i] % (K + 1) : 0;
        node[i].type = kind;
    }
    for (i = 0; i < 1 + K; i++) {
        for (j = 0; j < nkids[i]; j++) {
            unsigned c = i * K + 1 + j;
            IN.key[c][TS] = 0;
            if ((node[i].type & 0xFF) == cJSON_Object) node[c].string = (char *)IN.key[c];
            if (j > 0) { node[c - 1].next = &node[c]; node[c].prev = &node[c - 1]; }
        }
        if (nkids[i]) { node[i].child = &node[i * K + 1]; node[i * K + 1].prev = &node[i * K + nkids[i]]; }
        if ((node[i].type & 0xFF) == cJSON_Object) for (a = 0; a < nkids[i]; a++) for (b = a + 1; b < nkids[i]; b++) VF_ASSUME(strcmp((char *)IN.key[i * K + 1 + a], (char *)IN.key[i * K + 1 + b]) != 0);
    }
    /* children of absent level-1 nodes do not exist */
    for (i = 1; i <= K; i++) if (i > nkids[0]) nkids[i] = 0;
#if MODE == 0
    {
        const cJSON *want, *got;
        IN.ptr[P] = 0;
        got = cJSONUtils_GetPointerCaseSensitive(&node[0], (const char *)IN.ptr);
        want = ref_resolve(IN.ptr);
        VF_AP(15, got == want, "C15 case-sensitive pointer lookup returns exactly the node RFC 6901 designates (NULL for anything else)");
        VF_AP(15, cJSONUtils_GetPointerCaseSensitive(&node[0], 0) == 0, "C15 NULL pointer string resolves to nothing");
        if (want) VF_WITNESS("hit"); else VF_WITNESS("miss");
    }
#else
    {
        unsigned t = IN.target % NN; unsigned parent = t == 0 ? 0 : (t - 1) / K; int present; char *s; cJSON_Hooks h;
        present = t == 0 || (t <= K ? (t - 1) < nkids[0] : ((parent - 1) < nkids[0] && (t - 1) % K < nkids[parent]));
        VF_ASSUME(present);
        h.malloc_fn = vf_malloc; h.free_fn = vf_free; cJSON_InitHooks(&h);
        s = cJSONUtils_FindPointerFromObjectTo(&node[0], &node[t]);
        VF_AP(15, s != 0, "C15 a pointer is constructed for every node inside the tree");
        if (s) {
            VF_AP(15, ref_resolve((unsigned char *)s) == &node[t], "C15 the constructed pointer is correctly escaped: the RFC 6901 resolver maps it back to the node");
            VF_AP(15, cJSONUtils_GetPointerCaseSensitive(&node[0], s) == &node[t], "C15 the constructed pointer resolves back to the same node");
            cJSON_free(s);
            VF_AP(7, vf_live == 0, "C07 pointer construction releases its temporaries");
            VF_WITNESS("built");
        }
    }
#endif
    VF_WITNESS("end");
    return 0;
}
