/* Unit: print_value - literals, raw, the 0xFF type mask and dispatch - on an exact-size caller buffer, symbolic offset,
 * with print_number / print_string_ptr / print_array / print_object replaced by the emit stub.
 * Also discharges the contract the print_value stub assumes in print_arr.c (true => zero-terminated text at the old offset,
 * offset advanced by at most its length, inside the buffer). */
#define N 24
#define TS 3
#define VF_NPCALL 2
#define VF_PLEN 3
#define VF_INPUTS(X) X(int, type, ) X(unsigned char, raw, [TS + 1]) X(unsigned char, rawnull, ) X(unsigned, off, ) X(unsigned char, pre, [N]) \
    X(unsigned char, pp_ok, [VF_NPCALL]) X(unsigned char, pp_len, [VF_NPCALL]) X(unsigned char, pp_adv, [VF_NPCALL]) X(unsigned char, pp_txt, [VF_NPCALL][VF_PLEN])
#include "vf.h"
#include "vf_str.h"
#ifndef VF_LIB
#define VF_LIB "cJSON.c"
#endif
#include VF_LIB
#include "vf_pstub.h"

int main(VF_MAIN_ARGS)
{
    cJSON item; printbuffer p; unsigned char *buf; char *raw; size_t off, k, tl = 0; cJSON_bool ok; int kind; const char *want = 0; unsigned char exp[8];
    VF_INIT();
    VF_ASSUME(IN.off <= N);
    off = IN.off;
    memset(&item, 0, sizeof item); item.type = IN.type;
    IN.raw[TS] = 0; raw = (char *)vf_exact(IN.raw, TS + 1);
    item.valuestring = (IN.rawnull & 1) ? 0 : raw;
    kind = IN.type & 0xFF;
    buf = (unsigned char *)vf_exact(IN.pre, N);
    memset(&p, 0, sizeof p); p.buffer = buf; p.length = N; p.offset = off; p.noalloc = 1;

    ok = print_value__real(&item, &p);

    for (k = 0; k < N; k++) if (k < off) VF_AP(9, buf[k] == IN.pre[k], "C09 bytes in front of the start offset are not touched");
    if (kind == cJSON_NULL) want = "null"; else if (kind == cJSON_False) want = "false"; else if (kind == cJSON_True) want = "true";
    if (want) {
        tl = strlen(want);
        if (ok) { VF_AP(5, off + tl + 1 <= N && memcmp(buf + off, want, tl + 1) == 0, "C05 literal text (ownership flag bits above 0xFF are ignored)"); VF_AP(9, off + tl + 1 <= N, "C09 literal fits"); VF_WITNESS("literal"); }
        if (off + tl + 1 + 5 <= N) VF_AP(9, ok, "C09 literal succeeds when five spare bytes remain");
        VF_AP(5, pp_calls == 0, "C05 literals are not dispatched");
    } else if (kind == cJSON_Raw) {
        if (item.valuestring == 0) VF_AP(5, !ok, "C05 raw item without text is refused");
        else {
            tl = strlen(raw);
            if (ok) { VF_AP(5, off + tl + 1 <= N && memcmp(buf + off, raw, tl + 1) == 0, "C05 raw text is copied verbatim"); VF_WITNESS("raw"); }
            if (off + tl + 1 + 5 <= N) VF_AP(9, ok, "C09 raw succeeds when five spare bytes remain");
        }
    } else if (kind == cJSON_Number || kind == cJSON_String || kind == cJSON_Array || kind == cJSON_Object) {
        int tag = kind == cJSON_Number ? 2 : kind == cJSON_String ? 1 : kind == cJSON_Array ? 3 : 4;
        VF_AP(5, pp_calls == 1 && pp_isstr[0] == tag && pp_off[0] == off && ok == pp_res[0], "C05 number/string/array/object are dispatched to their printer at the same offset and its result is returned");
        if (kind == cJSON_String) VF_AP(5, pp_item[0] == item.valuestring, "C05 string items print their valuestring"); else VF_AP(5, pp_item[0] == &item, "C05 dispatch passes the item");
        VF_WITNESS("dispatch");
    } else {
        VF_AP(5, !ok && pp_calls == 0, "C05 invalid items are refused");
        VF_WITNESS("invalid");
    }
    if (ok) {   /* contract of the print_value stub */
        size_t e = p.offset; while (e < N && buf[e] != 0) e++;
        VF_ASSERT(p.offset >= off && e < N, "CONTRACT print_value true => offset not decreased and a terminator follows inside the buffer");
    }
    (void)exp;
    VF_WITNESS("end");
    free(buf); free(raw);
    return 0;
}
