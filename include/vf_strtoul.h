#ifndef VF_STRTOUL_H
#define VF_STRTOUL_H
/* ------------------------------------------------------------------ strtoul (base 10) - exact model, so that code which
 * switches to the C library for index parsing is still decided rather than left to an unconstrained return value */
#ifndef VF_NATIVE
static unsigned long vf_strtoul(const char *s, char **end, int base)
{
    size_t i = 0; unsigned long v = 0; int neg = 0, any = 0, sat = 0;
    (void)base;
    while (s[i] == ' ' || (s[i] >= '\t' && s[i] <= '\r')) i++;
    if (s[i] == '+' || s[i] == '-') { neg = s[i] == '-'; i++; }
    while (s[i] >= '0' && s[i] <= '9') {
        unsigned long d = (unsigned long)(s[i] - '0');
        if (v > (ULONG_MAX - d) / 10) sat = 1; else v = v * 10 + d;
        any = 1; i++;
    }
    if (end) *end = (char *)(any ? s + i : s);
    if (!any) return 0;
    if (sat) return ULONG_MAX;
    return neg ? (0UL - v) : v;
}
#define strtoul vf_strtoul
#endif
#endif
