/* vf_tree.h - symbolic well-formed cJSON trees built directly (no library calls) from the input record.
 * Shape: complete TK-ary index space of height TD; node i has children i*TK+1+j for j < nk(i); presence, kinds, key and
 * string bytes, integer values and ownership flags are all symbolic, so every tree inside the bounds occurs.
 * Parameters (define before including): TD (0..2 levels below the root), TK (max children), TS (max string/key bytes).
 * Put VF_TREE_INPUTS(X) (or VF_TREE2_INPUTS for a second tree) into VF_INPUTS. */
#ifndef VF_TREE_DIMS
#define VF_TREE_DIMS
#ifndef TD
#define TD 1
#endif
#ifndef TK
#define TK 2
#endif
#ifndef TS
#define TS 2
#endif
#if TD == 0
#define TNN 1
#elif TD == 1
#define TNN (1 + TK)
#else
#define TNN (1 + TK + TK * TK)
#endif
#define VF_TREE_FIELDS(X, p) X(unsigned char, p##kind, [TNN]) X(unsigned char, p##nk, [TNN]) X(unsigned char, p##str, [TNN][TS + 1]) \
    X(unsigned char, p##key, [TNN][TS + 1]) X(int, p##int, [TNN]) X(unsigned char, p##flag, [TNN])
#define VF_TREE_INPUTS(X) VF_TREE_FIELDS(X, t_)
#define VF_TREE2_INPUTS(X) VF_TREE_FIELDS(X, u_)
#endif /* VF_TREE_DIMS */

/* second phase: include again AFTER vf.h for the code */
#if defined(VF_H) && !defined(VF_TREE_H)
#define VF_TREE_H
typedef struct {
    const unsigned char *kind, *nk; const unsigned char (*str)[TS + 1]; const unsigned char (*key)[TS + 1]; const int *ival; const unsigned char *flag;
    cJSON *node[TNN];           /* snapshot: node pointers by index (NULL if absent) */
    char *ownstr[TNN], *ownkey[TNN];
    unsigned char bkey[TNN], bstr[TNN], bcont[TNN];     /* node i was built with a borrowed key / borrowed string */
} vf_tree;

/* which kinds a harness admits: bit k set => kind k of the list below may occur */
#ifndef VF_KINDS
#define VF_KINDS 0x7F           /* null false true number string array object; add 0x80 for raw */
#endif
#ifndef VF_ROOT_KINDS
#define VF_ROOT_KINDS 0xFF         /* kinds admitted for the root (VF_KINDS applies to all other nodes) */
#endif
#define VF_FLAG_REF 1           /* string node / container whose payload is borrowed (cJSON_IsReference) */
#define VF_FLAG_CONSTKEY 2      /* key is borrowed (cJSON_StringIsConst) */
#define VF_FLAG_REFCONT 4       /* container whose children belong to someone else (cJSON_IsReference on array/object) */
#ifndef VF_FLAGS
#define VF_FLAGS 0              /* flags a harness admits */
#endif
static char vf_borrow_str[TNN][TS + 1], vf_borrow_key[TNN][TS + 1];

static unsigned vf_level(unsigned i) { return i == 0 ? 0 : (i <= TK ? 1 : 2); }
static int vf_tkind(const vf_tree *t, unsigned i)
{
    unsigned k = t->kind[i] % 8;
    int kind;
    switch (k) { case 0: kind = cJSON_NULL; break; case 1: kind = cJSON_False; break; case 2: kind = cJSON_True; break; case 3: kind = cJSON_Number; break;
                 case 4: kind = cJSON_String; break; case 5: kind = cJSON_Array; break; case 6: kind = cJSON_Object; break; default: kind = cJSON_Raw; break; }
    return kind;
}
static int vf_kind_admitted(unsigned char k) { return ((VF_KINDS) >> (k % 8)) & 1; }
static unsigned vf_tnk(const vf_tree *t, unsigned i)
{
    int kind = vf_tkind(t, i);
    if (kind != cJSON_Array && kind != cJSON_Object) return 0;
    if (vf_level(i) >= TD) return 0;
    return t->nk[i] % (TK + 1);
}
static size_t vf_blen(const unsigned char *s) { size_t n = 0; while (n < TS && s[n] != 0) n++; return n; }

static cJSON *vf_build_rec(vf_tree *t, unsigned i, int member)
{
    cJSON *n = (cJSON *)vf_own(sizeof(cJSON)); int kind = vf_tkind(t, i); unsigned j, nk; cJSON *prev = 0;
    memset(n, 0, sizeof *n);
    t->node[i] = n;
    n->type = kind;
    if (member) {
        if ((VF_FLAGS & VF_FLAG_CONSTKEY) && (t->flag[i] & VF_FLAG_CONSTKEY)) {
            memcpy(vf_borrow_key[i], t->key[i], TS); vf_borrow_key[i][TS] = 0;
            n->string = vf_borrow_key[i]; n->type |= cJSON_StringIsConst; t->bkey[i] = 1;
        } else {
            char *k = (char *)vf_own(TS + 1); memcpy(k, t->key[i], TS); k[TS] = 0; n->string = k; t->ownkey[i] = k;
        }
    }
    if (kind == cJSON_Number) { n->valueint = t->ival[i]; n->valuedouble = (double)t->ival[i]; }
    else if (kind == cJSON_True) { n->valueint = t->ival[i] & 1; }
    else if (kind == cJSON_String || kind == cJSON_Raw) {
        if ((VF_FLAGS & VF_FLAG_REF) && (t->flag[i] & VF_FLAG_REF) && kind == cJSON_String) {
            memcpy(vf_borrow_str[i], t->str[i], TS); vf_borrow_str[i][TS] = 0;
            n->valuestring = vf_borrow_str[i]; n->type |= cJSON_IsReference; t->bstr[i] = 1;
        } else {
            char *s = (char *)vf_own(TS + 1); memcpy(s, t->str[i], TS); s[TS] = 0; n->valuestring = s; t->ownstr[i] = s;
        }
    }
    nk = vf_tnk(t, i);
    if ((VF_FLAGS & VF_FLAG_REFCONT) && (t->flag[i] & VF_FLAG_REFCONT) && (kind == cJSON_Array || kind == cJSON_Object)) { n->type |= cJSON_IsReference; t->bcont[i] = 1; }
    for (j = 0; j < nk; j++) {
        cJSON *c = vf_build_rec(t, i * TK + 1 + j, kind == cJSON_Object);
        if (prev == 0) n->child = c; else { prev->next = c; c->prev = prev; }
        prev = c;
    }
    if (n->child) n->child->prev = prev;
    return n;
}
/* assume-side of the input record: admitted kinds only */
static void vf_tree_assume(const vf_tree *t)
{
    unsigned i;
    for (i = 0; i < TNN; i++) {
        if (i > 0) VF_ASSUME(vf_kind_admitted(t->kind[i])); else VF_ASSUME(((VF_ROOT_KINDS) >> (t->kind[0] % 8)) & 1);
#ifdef VF_INTMAX
        VF_ASSUME(t->ival[i] >= -(VF_INTMAX) && t->ival[i] <= (VF_INTMAX));   /* stated bound: magnitude of integer payloads in tree-level queries */
#endif
    }
}
#define VF_TREE_BIND(t, p) do { memset(&(t), 0, sizeof(t)); (t).kind = IN.p##kind; (t).nk = IN.p##nk; (t).str = IN.p##str; (t).key = IN.p##key; (t).ival = IN.p##int; (t).flag = IN.p##flag; } while (0)
static cJSON *vf_build(vf_tree *t) { vf_tree_assume(t); return vf_build_rec(t, 0, 0); }

/* release a tree built by vf_build without the library (harness-side, honours the ownership flags) */
static void vf_release(cJSON *n)
{
    while (n) {
        cJSON *nx = n->next;
        if (!(n->type & cJSON_IsReference) && n->child) vf_release(n->child);
        if (!(n->type & cJSON_IsReference) && n->valuestring) vf_free(n->valuestring);
        if (!(n->type & cJSON_StringIsConst) && n->string) vf_free(n->string);
        vf_free(n);
        n = nx;
    }
}
#endif
