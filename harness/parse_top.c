/* Unit: the four parse entry points on a buffer object of exactly M bytes with parse_value replaced by its contract stub.
 * ENTRY 0: cJSON_ParseWithLengthOpts(v, M, &end, req)   1: cJSON_ParseWithLength(v, M)
 *       2: cJSON_ParseWithOpts(v, &end, req)            3: cJSON_Parse(v)       (2,3: only the last byte is zero)
 * WITH_END=0 passes NULL as return_parse_end (entries 0 and 2). */
#ifndef M
#define M 5
#endif
#ifndef ENTRY
#define ENTRY 0
#endif
#ifndef WITH_END
#define WITH_END 1
#endif
#define VF_NCALL 1
#define VF_INPUTS(X) X(unsigned char, b, [M]) X(unsigned char, req, ) X(unsigned char, fail_at, ) \
    X(unsigned char, pv_ok, [VF_NCALL]) X(unsigned char, pv_len, [VF_NCALL]) X(unsigned char, pv_kind, [VF_NCALL]) \
    X(unsigned char, ps_ok, [VF_NCALL]) X(unsigned char, ps_len, [VF_NCALL])
#include "vf.h"
#include "vf_str.h"
#define malloc vf_malloc
#define free vf_free
#define realloc vf_realloc
#ifndef VF_LIB
#define VF_LIB "cJSON.c"
#endif
#include VF_LIB
#undef malloc
#undef free
#undef realloc
#include "vf_stubs.h"
#include "vf_frame.h"

int main(VF_MAIN_ARGS)
{
    unsigned char *content; cJSON *r; const char *end = (const char *)1; const char *err; size_t i, j, k; int req, value_ok, must_ok = 0, must_fail = 0;
    VF_INIT();
#if ENTRY >= 2
    for (k = 0; k + 1 < M; k++) VF_ASSUME(IN.b[k] != 0);
    VF_ASSUME(IN.b[M - 1] == 0);
#endif
    req = (ENTRY == 0 || ENTRY == 2) ? (IN.req & 1) : 0;
    content = (unsigned char *)vf_exact(IN.b, M);
    vf_fail_at = IN.fail_at;
    VF_FRAME_BEGIN();

#if ENTRY == 0
    r = cJSON_ParseWithLengthOpts((const char *)content, M, WITH_END ? &end : 0, req);
#elif ENTRY == 1
    r = cJSON_ParseWithLength((const char *)content, M);
#elif ENTRY == 2
    r = cJSON_ParseWithOpts((const char *)content, WITH_END ? &end : 0, req);
#else
    r = cJSON_Parse((const char *)content);
#endif
    err = cJSON_GetErrorPtr();
    VF_FRAME_END(1);

    VF_AP(1, memcmp(content, IN.b, M) == 0, "C01 input not written");
    /* ---- specification: BOM, whitespace, one value, optional termination check */
    i = 0;
    if (M >= 3 && content[0] == 0xEF && content[1] == 0xBB && content[2] == 0xBF) i = 3;
    while (i < M && content[i] <= 0x20) i++;
    value_ok = (i < M) && IN.pv_ok[0] && vf_value_start(content[i]) && IN.pv_len[0] >= 1 && IN.pv_len[0] <= M - i;
    j = i + IN.pv_len[0];
    if (value_ok) {
        if (!req) must_ok = 1;
        else {
            size_t nz = M, z = M;       /* first byte > 0x20 after the value, first zero byte after the value */
            for (k = j; k < M; k++) { if (content[k] > 0x20 && nz == M) nz = k; if (content[k] == 0 && z == M) z = k; }
            if (j < M && nz == M && content[M - 1] == 0) must_ok = 1;          /* only whitespace, then the zero byte */
            else if (j == M || z == M || nz < z) must_fail = 1;                /* nothing / no zero byte / garbage before it */
        }
    } else must_fail = 1;
    if (IN.fail_at != 0) { must_ok = 0; if (IN.fail_at == 1) must_fail = 1; }

    if (must_ok) { VF_AP(2, r != 0, "C02 text (BOM, whitespace, value[, whitespace, zero]) is accepted by this entry point"); VF_AP(10, r != 0, "C10 termination check accepts value + whitespace + zero byte"); VF_WITNESS("must_ok"); }
    if (must_fail) { VF_AP(3, r == 0, "C03 text without a complete value is rejected"); VF_AP(10, r == 0, "C10 missing terminator / trailing garbage is rejected when termination is required"); VF_WITNESS("must_fail"); }

    if (r != 0) {
        VF_AP(2, pv_calls == 1 && pv_off[0] == i && pv_item[0] == r && pv_result[0], "C02 the value is parsed right after BOM and whitespace into the returned root");
        VF_AP(1, r->next == 0 && r->prev == 0 && r->string == 0, "C01 root has no sibling links and no key");
        VF_AP(10, err == 0, "C10 global error pointer is NULL after success");
#if WITH_END && (ENTRY == 0 || ENTRY == 2)
        VF_AP(10, end >= (const char *)content && end <= (const char *)content + M, "C10 parse end lies inside [start, start+length]");
        if (!req) VF_AP(10, end == (const char *)content + j, "C10 parse end is just after the value");
#endif
        VF_AP(1, vf_live == 1 + (r->valuestring != 0), "C01 allocation ledger: root plus what the value owns");
        VF_WITNESS("accepted");
        if (r->valuestring) vf_free(r->valuestring);
        vf_free(r);
    } else {
        VF_AP(3, vf_live == 0, "C03 rejection leaves no allocation behind");
        VF_AP(8, vf_live == 0, "C08 failed parse leaves no allocation behind");
        VF_AP(10, err >= (const char *)content && err <= (const char *)content + M - 1, "C10 error pointer lies inside the buffer (never past its last byte)");
#if WITH_END && (ENTRY == 0 || ENTRY == 2)
        VF_AP(10, end == err, "C10 reported error position equals the global error pointer");
#endif
        VF_WITNESS("rejected");
    }
    VF_AP(1, vf_live == 0, "C01 nothing else allocated");
    VF_WITNESS("end");
    free(content);
    return 0;
}
