/* vf_stubs.h - contract stubs for the recursive-descent callees (installed with goto-instrument --replace-calls).
 * The SAME contract is checked against the real function by the unit harnesses parse_val.c / parse_str.c:
 *   parse_value(item, buf): pre  buf,content non-NULL, item zeroed
 *     success: first byte at the old offset is in the dispatch set {n f t " - 0-9 [ {}, old < offset <= length,
 *              item->type in the 7 JSON kinds, item owns at most blocks from buf->hooks, depth unchanged
 *     failure: offset <= length, item owns nothing, depth unchanged or larger (never smaller), nothing allocated remains
 *   parse_string(item, buf): pre offset < length
 *     success: byte at old offset is '"', offset >= old + 2, offset <= length, type String, valuestring = one block from hooks
 *     failure: offset in [old, length], item owns nothing
 * Harness VF_INPUTS must contain: X(unsigned char, pv_ok, [VF_NCALL]) X(unsigned char, pv_len, [VF_NCALL]) X(unsigned char, pv_kind, [VF_NCALL])
 *                                 X(unsigned char, ps_ok, [VF_NCALL]) X(unsigned char, ps_len, [VF_NCALL])
 */
#ifndef VF_STUBS_H
#define VF_STUBS_H
#ifndef VF_NCALL
#define VF_NCALL 4
#endif
static unsigned pv_calls, ps_calls;
static size_t pv_off[VF_NCALL], pv_depth[VF_NCALL], ps_off[VF_NCALL];
static cJSON *pv_item[VF_NCALL], *ps_item[VF_NCALL];
static char *pv_block[VF_NCALL], *ps_block[VF_NCALL];
static int pv_result[VF_NCALL], ps_result[VF_NCALL];

static int vf_value_start(unsigned char c)
{
    return c == 'n' || c == 'f' || c == 't' || c == '"' || c == '-' || (c >= '0' && c <= '9') || c == '[' || c == '{';
}
static int vf_kind(unsigned char k)
{
    switch (k % 7) { case 0: return cJSON_NULL; case 1: return cJSON_False; case 2: return cJSON_True; case 3: return cJSON_Number;
                     case 4: return cJSON_String; case 5: return cJSON_Array; default: return cJSON_Object; }
}

cJSON_bool vf_stub_parse_value(cJSON * const item, parse_buffer * const b)
{
    unsigned k = pv_calls; size_t len;
    VF_BOUND(k < VF_NCALL, "more parse_value calls than VF_NCALL");
    VF_ASSUME(k < VF_NCALL);
    pv_calls++;
    VF_ASSERT(b != 0 && b->content != 0 && item != 0, "STUB parse_value precondition: non-NULL arguments");
    VF_ASSERT(item->valuestring == 0 && item->child == 0, "STUB parse_value precondition: item owns no value yet");
    pv_off[k] = b->offset; pv_depth[k] = b->depth; pv_item[k] = item; pv_block[k] = 0; pv_result[k] = 0;
    len = IN.pv_len[k];
    if (IN.pv_ok[k] && b->offset < b->length && vf_value_start(b->content[b->offset]) && len >= 1 && len <= b->length - b->offset) {
        int kind = vf_kind(IN.pv_kind[k]);
        if (kind == cJSON_String) {
            pv_block[k] = (char *)b->hooks.allocate(1);
            if (pv_block[k] == 0) return 0;                 /* allocation failure inside the callee */
            pv_block[k][0] = 0;
            item->valuestring = pv_block[k];
        }
        item->type = kind; item->valueint = (int)k;
        b->offset += len;
        pv_result[k] = 1;
        return 1;
    }
    /* failure: the error position may be anywhere from the old offset up to the end */
    if (len <= b->length - (b->offset <= b->length ? b->offset : b->length) && b->offset <= b->length) b->offset += len;
    return 0;
}

cJSON_bool vf_stub_parse_string(cJSON * const item, parse_buffer * const b)
{
    unsigned k = ps_calls; size_t len;
    VF_BOUND(k < VF_NCALL, "more parse_string calls than VF_NCALL");
    VF_ASSUME(k < VF_NCALL);
    ps_calls++;
    VF_ASSERT(b != 0 && b->content != 0 && item != 0, "STUB parse_string precondition: non-NULL arguments");
    VF_ASSERT(b->offset < b->length, "STUB parse_string precondition: offset inside the buffer");
    ps_off[k] = b->offset; ps_item[k] = item; ps_block[k] = 0; ps_result[k] = 0;
    len = IN.ps_len[k];
    if (IN.ps_ok[k] && b->content[b->offset] == '"' && len >= 2 && len <= b->length - b->offset) {
        ps_block[k] = (char *)b->hooks.allocate(1);
        if (ps_block[k] == 0) return 0;
        ps_block[k][0] = 0;
        item->valuestring = ps_block[k]; item->type = cJSON_String;
        b->offset += len;
        ps_result[k] = 1;
        return 1;
    }
    if (len <= b->length - b->offset) b->offset += len;
    return 0;
}
/* generic callee stub for parse_value's dispatch targets (parse_number / parse_array / parse_object):
 * harness VF_INPUTS must then contain X(unsigned char, sub_ok, ) X(unsigned char, sub_len, ) */
#ifdef VF_STUB_SUBS
static int sub_called;          /* 0 none, 1 number, 2 array, 3 object */
static size_t sub_off; static cJSON *sub_item; static int sub_result; static unsigned sub_calls;
static cJSON_bool vf_stub_sub(cJSON * const item, parse_buffer * const b, int which)
{
    sub_calls++; sub_called = which; sub_off = b->offset; sub_item = item; sub_result = 0;
    if (IN.sub_ok && IN.sub_len >= 1 && b->offset <= b->length && IN.sub_len <= b->length - b->offset) {
        item->type = which == 1 ? cJSON_Number : which == 2 ? cJSON_Array : cJSON_Object;
        b->offset += IN.sub_len; sub_result = 1; return 1;
    }
    return 0;
}
static cJSON_bool parse_number(cJSON * const item, parse_buffer * const input_buffer) { return vf_stub_sub(item, input_buffer, 1); }
static cJSON_bool parse_array(cJSON * const item, parse_buffer * const input_buffer) { return vf_stub_sub(item, input_buffer, 2); }
static cJSON_bool parse_object(cJSON * const item, parse_buffer * const input_buffer) { return vf_stub_sub(item, input_buffer, 3); }
#endif
/* bind the library's calls to the stubs (the driver renamed the real definitions to <name>__real) */
#ifdef VF_STUB_parse_value
static cJSON_bool parse_value(cJSON * const item, parse_buffer * const input_buffer) { return vf_stub_parse_value(item, input_buffer); }
#endif
#ifdef VF_STUB_parse_string
static cJSON_bool parse_string(cJSON * const item, parse_buffer * const input_buffer) { return vf_stub_parse_string(item, input_buffer); }
#endif
#endif
