#!/bin/bash
# usage: trypatch.sh <patch.diff> <name> <prop> [vf args...]  - run a check against a patched COPY of /repo (neither /repo nor evidence/ is touched)
patch=$1; name=$2; prop=$3; shift 3
d=/var/tmp/rp/$name; rm -rf $d; mkdir -p $d /var/tmp/rp/ev.$name
cp /repo/cJSON.c /repo/cJSON.h /repo/cJSON_Utils.c /repo/cJSON_Utils.h $d/
(cd $d && git init -q . 2>/dev/null; git apply --unsafe-paths --directory=$d $patch 2>/dev/null || patch -s -p1 -d $d < $patch) || { echo "APPLY_FAIL $name"; exit 3; }
VF_REPO=$d VF_EVIDENCE_DIR=/var/tmp/rp/ev.$name python3 /verif/vf/vf.py check $prop "$@"; rc=$?
echo "patch=$name prop=$prop exit=$rc"
rm -rf $d
