/* vf_libc.h - models of the libc functions cJSON's number handling depends on (part of the claim).
 * Include AFTER vf.h and BEFORE #include "cJSON.c"; it redirects strtod / localeconv by macro.
 * CBMC build : strtod is syntax-exact (longest prefix of the C decimal floating grammar with the locale's
 *              decimal point) and value-nondeterministic (IN.strtod_val); localeconv's decimal point is IN.dp.
 * native     : the real functions run; the wrapper only records the argument.
 * The harness's VF_INPUTS must contain: X(double, strtod_val, ) X(unsigned char, dp, )
 */
#ifndef VF_LIBC_H
#define VF_LIBC_H
#include <locale.h>
#include <errno.h>
#include <float.h>

static char vf_strtod_arg[80];      /* bytes handed to strtod (up to and including the terminator) */
static size_t vf_strtod_arglen;     /* strlen of that string */
static size_t vf_strtod_consumed;
static int vf_strtod_calls;
static double vf_strtod_ret;

static int vf_isdig(char c) { return c >= '0' && c <= '9'; }

#ifdef VF_NATIVE
static unsigned char vf_dp(void) { return (unsigned char)localeconv()->decimal_point[0]; }
static double vf_strtod(const char *s, char **end)
{
    char *e; double v = strtod(s, &e);
    vf_strtod_calls++;
    vf_strtod_arglen = strlen(s);
    if (vf_strtod_arglen < sizeof vf_strtod_arg) memcpy(vf_strtod_arg, s, vf_strtod_arglen + 1);
    vf_strtod_consumed = (size_t)(e - s);
    vf_strtod_ret = v;
    if (end) *end = e;
    return v;
}
#define VF_LIBC_ASSUME() do { } while (0)
#else
static char vf_dp_buf[2];
static struct lconv vf_lconv;
static unsigned char vf_dp(void) { return IN.dp; }
static struct lconv *vf_localeconv(void)
{
    vf_dp_buf[0] = (char)IN.dp; vf_dp_buf[1] = 0;
    vf_lconv.decimal_point = vf_dp_buf;
    return &vf_lconv;
}
static double vf_strtod(const char *s, char **end)
{
    size_t i = 0, j, nint = 0, nfrac = 0, n = 0, nexp = 0;
    char dp = (char)IN.dp;
    vf_strtod_calls++;
    /* record the argument: reading it also makes CBMC check that it is terminated inside its object */
    while (s[n] != 0) { if (n < sizeof vf_strtod_arg - 1) vf_strtod_arg[n] = s[n]; n++; }
    vf_strtod_arglen = n;
    if (n < sizeof vf_strtod_arg) vf_strtod_arg[n] = 0;
    if (s[i] == '+' || s[i] == '-') i++;
    while (vf_isdig(s[i])) { i++; nint++; }
    if (s[i] == dp) {
        j = i + 1;
        while (vf_isdig(s[j])) { j++; nfrac++; }
        if (nint + nfrac > 0) i = j;
    }
    if (nint + nfrac == 0) { if (end) *end = (char *)s; vf_strtod_consumed = 0; vf_strtod_ret = 0.0; return 0.0; }
    if (s[i] == 'e' || s[i] == 'E') {
        j = i + 1;
        if (s[j] == '+' || s[j] == '-') j++;
        if (vf_isdig(s[j])) { while (vf_isdig(s[j])) { j++; nexp++; } i = j; }
    }
    /* range errors (C11 7.22.1.3p10): overflow returns +-HUGE_VAL and sets ERANGE, glibc also sets it when the result underflows.
     * Only a literal with at least three exponent digits can get there inside the 63 characters cJSON forwards, so only those may. */
    if (nexp >= 3 && (IN.strtod_val > DBL_MAX || IN.strtod_val < -DBL_MAX || (IN.strtod_val < DBL_MIN && IN.strtod_val > -DBL_MIN))) errno = ERANGE;
    if (end) *end = (char *)s + i;
    vf_strtod_consumed = i;
    vf_strtod_ret = IN.strtod_val;
    return IN.strtod_val;
}
#define localeconv vf_localeconv
/* strtod never returns NaN for the bytes cJSON forwards ([0-9+-eE.]); the decimal point is '.' or ',' */
#define VF_LIBC_ASSUME() do { VF_ASSUME(IN.dp == '.' || IN.dp == ','); VF_ASSUME(IN.strtod_val == IN.strtod_val); } while (0)
#endif
#define strtod vf_strtod
#endif

/* ------------------------------------------------------------------ sprintf / sscanf model
 * Opt-in: define VF_MODEL_PRINTF before including this header; VF_INPUTS must then contain
 *   X(unsigned char, g_text, [2][26]) X(double, g_val, )
 * CBMC build : generic interpreter for the conversions the library uses: %d %i %lu %s %04x exact;
 *              %1.15g / %1.17g write the nondeterministic text IN.g_text[0] / IN.g_text[1] (assumed to match the
 *              grammar -?D+(.D+)?(e[+-]DD+)? with the locale decimal point, or inf/nan spellings, length <= 24);
 *              sscanf("%lg") stores IN.g_val and returns 1.
 * native     : real sprintf / sscanf. */
#ifdef VF_MODEL_PRINTF
#include <stdarg.h>
static int vf_g_calls;
#ifndef VF_NATIVE
#ifndef VF_MAXDIGITS
#define VF_MAXDIGITS 20
#endif
static size_t vf_put_ulong(char *o, unsigned long v)
{
    char tmp[24]; size_t n = 0, k;
#if VF_MAXDIGITS <= 9
    unsigned w = (unsigned)v;       /* 32 bit arithmetic is enough below 10^9 (cheaper to bit-blast) */
    VF_BOUND(v <= 999999999UL, "integer wider than VF_MAXDIGITS");
    do { tmp[n++] = (char)('0' + (w % 10)); w /= 10; } while (w != 0 && n < VF_MAXDIGITS);
#else
    do { tmp[n++] = (char)('0' + (v % 10)); v /= 10; } while (v != 0 && n < 22);
#endif
    for (k = 0; k < n; k++) o[k] = tmp[n - 1 - k];
    return n;
}
static int vf_sprintf(char *out, const char *fmt, ...)
{
    /* general conversion syntax %[0][width][.precision][l]{d,i,u,x,s,g}: equivalent respellings (e.g. %1.15g vs %.15g) select the same model */
    va_list ap; size_t o = 0, f = 0;
    va_start(ap, fmt);
    while (fmt[f] != 0) {
        int zero = 0, lng = 0, prec = -1; size_t width = 0, start, len, pad; char conv;
        if (fmt[f] != '%') { out[o++] = fmt[f++]; continue; }
        f++;
        if (fmt[f] == '0') { zero = 1; f++; }
        while (fmt[f] >= '0' && fmt[f] <= '9') { width = width * 10 + (size_t)(fmt[f] - '0'); f++; }
        if (fmt[f] == '.') { f++; prec = 0; while (fmt[f] >= '0' && fmt[f] <= '9') { prec = prec * 10 + (fmt[f] - '0'); f++; } }
        if (fmt[f] == 'l') { lng = 1; f++; }
        conv = fmt[f++];
        start = o;
        if (conv == 'd' || conv == 'i') {
            long v = lng ? va_arg(ap, long) : (long)va_arg(ap, int); unsigned long m;
            if (v < 0) { out[o++] = '-'; m = (unsigned long)(-v); } else m = (unsigned long)v;
            o += vf_put_ulong(out + o, m);
        } else if (conv == 'u') {
            o += vf_put_ulong(out + o, lng ? va_arg(ap, unsigned long) : (unsigned long)va_arg(ap, unsigned));
        } else if (conv == 's') {
            const char *s = va_arg(ap, const char *); size_t k = 0;
            while (s[k] != 0) out[o++] = s[k++];
        } else if (conv == 'x') {
            unsigned v = (unsigned)va_arg(ap, unsigned char); int sh, started = 0;     /* CBMC does not apply the default argument promotions: the library passes an unsigned char */
            for (sh = 4; sh >= 0; sh -= 4) { unsigned d = (v >> sh) & 0xF; if (d != 0 || started || sh == 0) { out[o++] = (char)(d < 10 ? '0' + d : 'a' + d - 10); started = 1; } }
        } else if (conv == 'g' && (prec == 15 || prec == 17)) {
            int which = prec == 17; size_t k = 0; double d = va_arg(ap, double);
            (void)d; vf_g_calls++;
            while (k < 25 && IN.g_text[which][k] != 0) out[o++] = (char)IN.g_text[which][k++];
        } else {
            VF_BOUND(0, "sprintf conversion not modelled");
            __CPROVER_assume(0);
        }
        /* minimum field width: pad on the left (zeros if the 0 flag was given and the conversion is numeric) */
        len = o - start;
        if (len < width) {
            size_t k;
            pad = width - len;
            for (k = len; k > 0; k--) out[start + pad + k - 1] = out[start + k - 1];
            for (k = 0; k < pad; k++) out[start + k] = (zero && conv != 's') ? '0' : ' ';
            o += pad;
        }
    }
    va_end(ap);
    out[o] = 0;
    return (int)o;
}
static int vf_sscanf(const char *s, const char *fmt, double *out)
{
    (void)s; (void)fmt;
    *out = IN.g_val;
    return 1;
}
#define sprintf vf_sprintf
#define sscanf vf_sscanf
#endif
#endif

#include "vf_strtoul.h"
