/* Unit: parse_number on a buffer object of exactly M bytes (all bytes symbolic), any offset.
 * C01: all reads inside [content, content+M) and inside the 64 byte local copy; strtod receives a terminated string.
 * C02: an RFC 8259 number literal (<= 63 chars) followed by a non-number byte or the end of the buffer is accepted,
 *      strtod receives exactly the literal ('.' -> locale point), valuedouble is what strtod returned, valueint is that
 *      value truncated toward zero and saturated, offset advances by the literal's length.
 * C03: no digit after the optional sign => rejected, offset and item untouched.
 * C10: offset stays <= length; on success it grows. */
#ifndef M
#define M 4
#endif
#define VF_INPUTS(X) X(unsigned char, b, [M]) X(unsigned, off, ) X(unsigned, lit, ) X(double, strtod_val, ) X(unsigned char, dp, )
#define VF_MAXSZ (M + 2)
#include "vf.h"
#include "vf_str.h"
#include "vf_libc.h"
/* the default allocator of the library TU is the counting allocator, so that an implementation that allocates is in the ledger */
#define malloc vf_malloc
#define free vf_free
#define realloc vf_realloc
#include "cJSON.c"
#undef malloc
#undef free
#undef realloc

static int numchar(unsigned char c) { return (c >= '0' && c <= '9') || c == '+' || c == '-' || c == 'e' || c == 'E' || c == '.'; }
static int dig(unsigned char c) { return c >= '0' && c <= '9'; }
/* independent RFC 8259 number scanner: length of the literal starting at b[0] (0 if none), n bytes available */
static size_t rfc_number(const unsigned char *b, size_t n)
{
    size_t i = 0;
    if (i < n && b[i] == '-') i++;
    if (i >= n || !dig(b[i])) return 0;
    if (b[i] == '0') i++; else while (i < n && dig(b[i])) i++;
    if (i < n && b[i] == '.') { if (i + 1 < n && dig(b[i + 1])) { i++; while (i < n && dig(b[i])) i++; } else return 0; }
    if (i < n && (b[i] == 'e' || b[i] == 'E')) {
        size_t j = i + 1;
        if (j < n && (b[j] == '+' || b[j] == '-')) j++;
        if (j < n && dig(b[j])) { while (j < n && dig(b[j])) j++; i = j; } else return 0;
    }
    return i;
}

static int body(void);
int main(VF_MAIN_ARGS)
{
    VF_INIT(); VF_LIBC_ASSUME();
#ifdef VF_NATIVE
    if (getenv("VF_SEARCH")) {
        /* the strtod contract over-approximates the C library in the VALUE it returns (and so in whether a range error is flagged): when the
         * solver's witness needs a range error, look for a literal of the same shape that really has one: exponent digits all 9, first digit 1 */
        size_t e, k2, fd; unsigned v;
        for (e = IN.off; e < M && IN.b[e] != 'e' && IN.b[e] != 'E'; e++) { }
        if (e < M) {
            for (k2 = e + 1; k2 < M; k2++) { if (dig(IN.b[k2])) IN.b[k2] = '9'; else if (k2 > e + 1 || (IN.b[k2] != '+' && IN.b[k2] != '-')) break; }
            fd = IN.off + (IN.b[IN.off] == '-' ? 1 : 0);
            for (v = 0; v < 2; v++) { if (v == 1 && fd < e && IN.b[fd] == '0') IN.b[fd] = '1'; body(); }
        }
        return 0;
    }
#endif
    return body();
}
static int body(void)
{
    parse_buffer buf; cJSON item; unsigned char *content; cJSON_bool ok; size_t off, avail, lit, k;
    vf_strtod_calls = 0;
#ifdef OFF0
    VF_ASSUME(IN.off == 0);
#endif
    VF_ASSUME(IN.off < M);
    off = IN.off; avail = M - off;
    content = (unsigned char *)vf_exact(IN.b, M);
    memset(&buf, 0, sizeof buf); memset(&item, 0, sizeof item);
    buf.content = content; buf.length = M; buf.offset = off;
    buf.hooks.allocate = vf_malloc; buf.hooks.deallocate = vf_free; buf.hooks.reallocate = 0;

    ok = parse_number(&item, &buf);

    VF_AP(1, memcmp(content, IN.b, M) == 0, "C01 input not written");
    VF_AP(1, vf_live == 0, "C01 parse_number leaves no allocation behind");
    VF_AP(3, vf_live == 0, "C03 a rejected (or accepted) number leaves no allocation behind");
    VF_AP(7, vf_live == 0, "C07 parse_number releases whatever it allocates");
    VF_AP(10, buf.offset <= buf.length, "C10 offset stays inside the buffer");
    if (ok) {
        VF_AP(10, buf.offset > off, "C10 success consumes at least one byte");
        VF_AP(2, item.type == cJSON_Number, "C02 type is number");
        if (vf_strtod_calls == 1) {
        VF_AP(2, (item.valuedouble == vf_strtod_ret) || (item.valuedouble != item.valuedouble && vf_strtod_ret != vf_strtod_ret), "C02 valuedouble is the value strtod returned");
        VF_AP(3, buf.offset - off == vf_strtod_consumed, "C03 the number token ends exactly where the C library stopped reading (no further bytes are swallowed)");
        if (vf_strtod_ret >= INT_MAX) VF_AP(2, item.valueint == INT_MAX, "C02 valueint saturates at INT_MAX");
        else if (vf_strtod_ret <= (double)INT_MIN) VF_AP(2, item.valueint == INT_MIN, "C02 valueint saturates at INT_MIN");
        else if (vf_strtod_ret == vf_strtod_ret) VF_AP(2, item.valueint == (int)vf_strtod_ret, "C02 valueint is the double truncated toward zero");
        }
        VF_WITNESS("accepted");
    } else {
        VF_AP(10, buf.offset == off, "C10 failed parse_number leaves the offset");
        VF_AP(3, item.type == 0 && item.valuestring == 0 && item.child == 0, "C03 rejected number leaves the item empty");
    }
    /* C03: no digit after the optional sign */
    if (VF_ON(3)) {
        size_t i = off;
        if (i < M && content[i] == '-') i++;
        if (i >= M || !dig(content[i])) {
            if (!(i < M && content[i] == '.' && i + 1 < M && dig(content[i + 1])) && !(i < M && content[i] == '+'))
                VF_AP(3, !ok, "C03 number without digits is rejected");
        }
    }
    /* C02: RFC literal followed by a non-number byte or the end */
#ifdef LONGINT
    /* long literals: instead of scanning, the literal is CONSTRUCTED: [-]digits of symbolic length IN.lit (no leading zero),
     * then a non-number byte or the end; the same C02 obligations apply */
    lit = 0;
    if (VF_ON(2) && IN.lit >= 1 && IN.lit <= avail && IN.lit <= 63) {
        size_t first = (content[off] == '-') ? 1 : 0; int good = IN.lit > first;
        for (k = first; k < M - off; k++) {
            if (k < IN.lit) { if (!dig(content[off + k]) || (k == first && content[off + k] == '0' && IN.lit > first + 1)) good = 0; }
        }
        if (good) lit = IN.lit;
    }
#else
    lit = (VF_ON(2) || VF_ON(4)) ? rfc_number(content + off, avail) : 0;
#endif
    if (lit > 0 && lit <= 63 && (lit == avail || !numchar(content[off + lit]))) {
        VF_AP(2, ok, "C02 RFC 8259 number literal is accepted");
        VF_AP(4, ok && buf.offset == off + lit, "C04 the text print_number emits is an RFC 8259 literal: every such literal, whatever its magnitude, is read back whole");
        VF_AP(2, buf.offset == off + lit, "C02 offset advances by the literal length");
        if (vf_strtod_calls == 1) {
            VF_AP(2, vf_strtod_arglen == lit, "C02 strtod receives exactly the literal");
            for (k = 0; k < lit; k++) {
                unsigned char want = content[off + k] == '.' ? vf_dp() : content[off + k];
                VF_AP(2, ((unsigned char *)vf_strtod_arg)[k] == want, "C02 strtod receives the literal bytes with the locale decimal point");
            }
        } else {
            /* conversion without the C library: decided here for integer literals of up to 19 digits against the exactly rounded value
             * (unsigned 64 bit accumulation is exact, its conversion to double rounds to nearest); other literals cannot be decided */
            size_t first = content[off] == '-' ? 1 : 0; int plain = lit - first <= 19 && lit > first; unsigned long u = 0;
            for (k = first; k < lit; k++) { if (!dig(content[off + k])) plain = 0; else u = u * 10 + (unsigned long)(content[off + k] - '0'); }
            VF_BOUND(plain, "number converted without strtod and not a plain integer of <= 19 digits: value cannot be decided");
            if (plain && ok) VF_AP(2, item.valuedouble == (first ? -(double)u : (double)u), "C02 integer literal decodes to the correctly rounded double");
        }
        VF_WITNESS("rfc-literal");
    }
    if (M <= 12 && VF_ON(10) && ok && vf_strtod_calls == 1) {
        /* C10 prefix re-parse (short buffers only; the long-number queries would double their cost): the same number in a buffer that ends at the reported parse end is consumed identically */
        parse_buffer b2; cJSON it2; size_t e = buf.offset, consumed1 = vf_strtod_consumed;
        memset(&b2, 0, sizeof b2); memset(&it2, 0, sizeof it2);
        b2.content = content; b2.length = e; b2.offset = off; b2.hooks = buf.hooks;
        VF_AP(10, parse_number(&it2, &b2) && b2.offset == e, "C10 the bytes before the parse end form by themselves the same number token");
        VF_AP(10, vf_strtod_calls != 2 || (vf_strtod_arglen == e - off && vf_strtod_consumed == consumed1), "C10 ... and the C library is handed exactly that token");
    }
    VF_WITNESS("end");
    free(content);
    return 0;
}
