/* Unit: print_array / print_object on an exact-size caller buffer (noalloc) with print_value replaced by its contract stub.
 * WHAT=0 array, WHAT=1 object (keys printed by the REAL print_string_ptr).  Children: NC concrete (0..3), keys TS symbolic bytes.
 * Buffer: object of exactly N bytes, start offset symbolic, depth symbolic (< 3), format symbolic.
 * C09: no write outside the N byte object (CBMC bounds check); true => text complete; enough room => true.
 * C05/C04: emitted text is exactly  [ v , v ]  /  { "k":v , ... }  with cJSON's documented formatted layout. */
#ifndef N
#define N 32
#endif
#ifndef NC
#define NC 2
#endif
#ifndef WHAT
#define WHAT 0
#endif
#ifndef TS
#define TS 1
#endif
#define VF_NPCALL (2 * NC + 1)
#define VF_PLEN 3
#define VF_INPUTS(X) X(unsigned, off, ) X(unsigned char, depth, ) X(int, fmt, ) X(unsigned char, key, [NC + 1][TS + 1]) X(unsigned char, pre, [N]) \
    X(unsigned char, pp_ok, [VF_NPCALL]) X(unsigned char, pp_len, [VF_NPCALL]) X(unsigned char, pp_adv, [VF_NPCALL]) X(unsigned char, pp_txt, [VF_NPCALL][VF_PLEN]) \
    X(unsigned char, g_text, [2][26]) X(double, g_val, ) X(double, strtod_val, ) X(unsigned char, dp, )
#include "vf.h"
#include "vf_str.h"
#define VF_MODEL_PRINTF
#define VF_MAXDIGITS 2
#include "vf_libc.h"
#ifndef VF_LIB
#define VF_LIB "cJSON.c"
#endif
#include VF_LIB
#include "vf_pstub.h"
#include "vf_tree.h"
#include "vf_ref_print.h"

int main(VF_MAIN_ARGS)
{
    cJSON parent, kid[NC + 1]; printbuffer p; unsigned char *buf; unsigned char ref[96]; size_t o = 0, k, d, off, depth; int fmt, allok = 1; cJSON_bool ok; unsigned c; unsigned vidx[NC + 1];
    VF_INIT(); VF_LIBC_ASSUME();
    VF_ASSUME(IN.off <= N); VF_ASSUME(IN.depth < 3);
    off = IN.off; depth = IN.depth; fmt = IN.fmt != 0;
    memset(&parent, 0, sizeof parent); memset(kid, 0, sizeof kid);
    parent.type = WHAT ? cJSON_Object : cJSON_Array;
    for (c = 0; c < NC; c++) {
        kid[c].type = cJSON_NULL; IN.key[c][TS] = 0; kid[c].string = (char *)IN.key[c];
        if (c > 0) { kid[c - 1].next = &kid[c]; kid[c].prev = &kid[c - 1]; }
    }
    if (NC > 0) { parent.child = &kid[0]; kid[0].prev = &kid[NC - 1]; }
    buf = (unsigned char *)vf_exact(IN.pre, N);
    memset(&p, 0, sizeof p);
    p.buffer = buf; p.length = N; p.offset = off; p.noalloc = 1; p.format = IN.fmt; p.depth = depth;     /* cJSON_bool is an int: every non-zero value means formatted */

    ok = WHAT ? print_object(&parent, &p) : print_array(&parent, &p);

    /* expected text */
    rp_o = 0; rp_out = ref; rp_cap = sizeof ref; rp_overflow = 0;
    if (WHAT == 0) {
        rp_put('[');
        for (c = 0; c < NC; c++) { if (c) { rp_put(','); if (fmt) rp_put(' '); } for (k = 0; k < 1 + IN.pp_len[c] % VF_PLEN; k++) rp_put(IN.pp_txt[c][k]); if (!IN.pp_ok[c]) allok = 0; }
        for (c = 0; c < NC; c++) vidx[c] = c;
        rp_put(']');
    } else {
        rp_put('{'); if (fmt) rp_put('\n');
        for (c = 0; c < NC; c++) {
            if (fmt) for (d = 0; d < depth + 1; d++) rp_put('\t');
            for (k = 0; k < 1 + IN.pp_len[2 * c] % VF_PLEN; k++) rp_put(IN.pp_txt[2 * c][k]);       /* key text (stubbed print_string_ptr) */
            rp_put(':'); if (fmt) rp_put('\t');
            for (k = 0; k < 1 + IN.pp_len[2 * c + 1] % VF_PLEN; k++) rp_put(IN.pp_txt[2 * c + 1][k]);
            if (!IN.pp_ok[2 * c] || !IN.pp_ok[2 * c + 1]) allok = 0;
            vidx[c] = 2 * c + 1;
            if (c + 1 < NC) rp_put(',');
            if (fmt) rp_put('\n');
        }
        if (fmt) for (d = 0; d < depth; d++) rp_put('\t');
        rp_put('}');
    }
    ref[rp_o] = 0; o = rp_o;
    VF_ASSUME(!rp_overflow);

    for (k = 0; k < N; k++) if (k < off) VF_AP(9, buf[k] == IN.pre[k], "C09 bytes in front of the start offset are not touched");
    if (ok) {
        VF_AP(9, allok, "C09 true only if every child was printed");
        VF_AP(9, off + o + 1 <= N, "C09 true only if the complete text and its terminator fit");
        for (k = 0; k <= o && off + k < N; k++) { VF_AP(9, buf[off + k] == ref[k], "C09 buffer holds the complete text"); VF_AP(5, buf[off + k] == ref[k], "C05 container text is exactly the reference layout"); VF_AP(4, buf[off + k] == ref[k], "C04 container text is exactly what the parse units accept back"); }
        VF_AP(5, p.depth == depth, "C05 depth restored");
        VF_AP(9, p.offset >= off && p.offset <= off + o, "C09 offset stays inside the text (update_offset finds the terminator)");
        for (c = 0; c < NC; c++) { VF_AP(5, pp_item[vidx[c]] == &kid[c] && pp_depth[vidx[c]] == depth + 1, "C05 children are printed in order, one level deeper"); if (WHAT) VF_AP(5, pp_item[2 * c] == kid[c].string && pp_isstr[2 * c], "C05 member keys are printed from the member's key"); }
        VF_WITNESS("true");
    } else VF_WITNESS("false");
    if (allok && off + o + 1 + 5 <= N) VF_AP(9, ok, "C09 succeeds when at least five spare bytes remain behind text and terminator");
    VF_WITNESS("end");
    free(buf);
    return 0;
}
