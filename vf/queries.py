"""Query registry: every entry is one CBMC query (harness source x bound parameters)."""
QUERIES = []
PROPS = {}

def Q(prop, qid, src, defs=(), unwind=None, unwindset=(), tiers=('quick', 'thorough'), link=(), witnesses=(), functions=(), **kw):
    d = dict(prop=prop, id='%s.%s' % (prop, qid), src=src, defs=list(defs), unwind=unwind, unwindset=list(unwindset), tiers=tiers,
             link=list(link), witnesses=list(witnesses), functions=list(functions))
    d.update(kw)
    QUERIES.append(d)

def ML(n, cnt=45, fn='main'):
    """unwindset entries giving every loop in main (including do{}while(0) macro bodies) the bound n"""
    return ['%s.%d:%d' % (fn, i, n) for i in range(cnt)]

# ------------------------------------------------------------------ C13 minify
PROPS['C13'] = dict(
    level='model_checking',
    bounds={'quick': 'every zero-terminated string of length L = 0..7 (all 255^L contents), buffer object of exactly L+1 bytes',
            'thorough': 'L = 0..10'},
    outside='strings longer than the bound; the claim "result parses to an equal tree" is decided through the reference minifier, not by running the parser',
    stubs=[], assumptions=['CBMC memory model (byte-precise objects); strlen/strcmp/memcpy are CBMC built-in models'])
for L in range(0, 9):
    Q('C13', 'minify.L%d' % L, 'harness/c13_minify.c', defs=['-DL=%d' % L, '-DVF_ONLY=13'], unwind=L + 3,
      tiers=('quick', 'thorough') if L <= 6 else ('thorough',), cost=L, timeout=3000,
      functions=['cJSON_Minify', 'minify_string', 'skip_oneline_comment', 'skip_multiline_comment'])
Q('C20', 'minify.L4', 'harness/c13_minify.c', defs=['-DL=4', '-DVF_ONLY=20'], unwind=7, cost=4, functions=['cJSON_Minify'])

# ------------------------------------------------------------------ parse units (C01, C02, C03, C10)
PARSE_PROPS = ('C01', 'C02', 'C03', 'C10')
def QP(qid, src, props=PARSE_PROPS, **kw):
    """a parse-unit query is shared by several properties; each property run keeps only its own obligations"""
    for p in props:
        kw2 = dict(kw); kw2['defs'] = list(kw.get('defs', [])) + ['-DVF_ONLY=%d' % int(p[1:])]
        Q(p, qid, src, **kw2)

for M in (1, 2, 3, 4, 6, 8, 12, 33, 62, 63, 64, 65, 66):
    quick = M in (1, 2, 3, 4, 6, 64, 65)
    tiers = ('quick', 'thorough') if quick else ('thorough',)
    fn = ['parse_number', 'get_decimal_point']
    if M <= 12:
        QP('num.M%d' % M, 'harness/parse_num.c', props=PARSE_PROPS + (('C07',) if M == 3 else ()) + (('C04',) if M in (6, 12) else ()), defs=['-DM=%d' % M], unwind=M + 2, tiers=tiers, cost=M, functions=fn, native_search=True)
    else:
        # long buffers: offset 0; safety/rejection/offset obligations on arbitrary bytes, C02 on constructed long integer literals
        QP('num.M%d' % M, 'harness/parse_num.c', props=('C01', 'C03', 'C10'), defs=['-DM=%d' % M, '-DOFF0'], unwind=min(M, 64) + 2, unwindset=['memcmp.0:%d' % (M + 2)], tiers=tiers, cost=M, functions=fn)
        QP('numlong.M%d' % M, 'harness/parse_num.c', props=('C02',), defs=['-DM=%d' % M, '-DOFF0', '-DLONGINT'], unwind=min(M, 64) + 3, unwindset=['memcmp.0:%d' % (M + 2)], tiers=tiers, cost=M, functions=fn, timeout=1800)

STRFN = ['parse_string', 'utf16_literal_to_utf8', 'parse_hex4']
for M in (1, 2, 3, 4, 5, 6, 7, 8, 10, 12):
    tiers = ('quick', 'thorough') if M <= 8 else ('thorough',)
    QP('str.M%d' % M, 'harness/parse_str.c', props=('C01', 'C02', 'C03', 'C08', 'C10'), defs=['-DM=%d' % M], unwind=M + 2, tiers=tiers, cost=M * 2, functions=STRFN)
QP('str.u1', 'harness/parse_str.c', props=('C01', 'C02', 'C03'), defs=['-DM=8', '-DTEMPLATE=1'], unwind=10, cost=5, functions=STRFN)
QP('str.u2', 'harness/parse_str.c', props=('C01', 'C02', 'C03'), defs=['-DM=14', '-DTEMPLATE=2'], unwind=16, cost=8, functions=STRFN)

RC_PV = [('__CPROVER_file_local_cJSON_c_parse_value', 'vf_stub_parse_value')]
RC_PS = [('__CPROVER_file_local_cJSON_c_parse_string', 'vf_stub_parse_string')]
for M in (2, 3, 4, 5, 6, 7):
    tiers = ('quick', 'thorough') if M <= 5 else ('thorough',)
    QP('arr.M%d' % M, 'harness/parse_arr.c', props=('C01', 'C02', 'C03', 'C08', 'C10'), defs=['-DM=%d' % M], unwind=M + 3, tiers=tiers, cost=M * 3, timeout=(600 if M <= 6 else 2400),
       stub=['parse_value'], functions=['parse_array', 'buffer_skip_whitespace', 'cJSON_New_Item', 'cJSON_Delete'],
       unwindset=['cJSON_Delete.0:%d' % (M + 2), 'cJSON_Delete:2'])
for M in (2, 3, 4, 5, 6, 7, 8):
    tiers = ('quick', 'thorough') if M <= 6 else ('thorough',)
    QP('obj.M%d' % M, 'harness/parse_obj.c', props=('C01', 'C02', 'C03', 'C08', 'C10'), defs=['-DM=%d' % M], unwind=M + 3, tiers=tiers, cost=M * 4,
       stub=['parse_value', 'parse_string'], functions=['parse_object', 'buffer_skip_whitespace', 'cJSON_New_Item', 'cJSON_Delete'],
       unwindset=['cJSON_Delete.0:%d' % (M + 2), 'cJSON_Delete:2'])
for M in (1, 4, 6):
    QP('val.M%d' % M, 'harness/parse_val.c', defs=['-DM=%d' % M], unwind=M + 3, cost=3,
       stub=['parse_value', 'parse_string', 'parse_number', 'parse_array', 'parse_object'], functions=['parse_value'])
TOPFN = ['cJSON_ParseWithLengthOpts', 'cJSON_ParseWithLength', 'cJSON_ParseWithOpts', 'cJSON_Parse', 'skip_utf8_bom', 'buffer_skip_whitespace', 'cJSON_New_Item', 'cJSON_Delete', 'cJSON_GetErrorPtr']
for M in (1, 2, 3, 4, 5, 6, 7, 8):
    for E in (0, 1, 2, 3):
        quick = True
        tiers = ('quick', 'thorough') if quick else ('thorough',)
        QP('top.E%d.M%d' % (E, M), 'harness/parse_top.c', props=('C01', 'C02', 'C03', 'C08', 'C10') + (('C20',) if M == 5 else ()), defs=['-DM=%d' % M, '-DENTRY=%d' % E], unwind=M + 3, tiers=tiers, cost=M,
           stub=['parse_value'], functions=TOPFN, unwindset=['cJSON_Delete.0:2', 'cJSON_Delete:2'])
for M in (2, 4):
    for E in (0, 2):
        QP('top.E%d.noend.M%d' % (E, M), 'harness/parse_top.c', props=('C01', 'C10'), defs=['-DM=%d' % M, '-DENTRY=%d' % E, '-DWITH_END=0'], unwind=M + 3, cost=M,
           stub=['parse_value'], functions=TOPFN, unwindset=['cJSON_Delete.0:2', 'cJSON_Delete:2'])

# ------------------------------------------------------------------ print on symbolic trees (C04, C05, C09, C07, C08, C14)
PRFN = ['cJSON_PrintPreallocated', 'cJSON_Print', 'cJSON_PrintUnformatted', 'cJSON_PrintBuffered', 'print', 'print_value', 'print_array', 'print_object', 'print_string_ptr', 'print_number', 'ensure', 'update_offset']
def QM(props, qid, src, **kw):
    for p in props:
        kw2 = dict(kw); kw2['defs'] = list(kw.get('defs', [])) + ['-DVF_ONLY=%d' % int(p[1:])]
        Q(p, qid, src, **kw2)
QM((), 'prealloc.D1K1S1', 'harness/print_tree.c', defs=['-DAPI=0', '-DTD=1', '-DTK=1', '-DTS=1', '-DCAP=40'], unwind=8, unwindset=['memcmp.0:42', 'main.0:42','main.1:42','main.2:42','main.3:42'], cost=20, functions=PRFN)
for what, nm in ((0, 'arr'), (1, 'obj')):
    for nc in (0, 1, 2, 3):
        QM(('C09', 'C05', 'C04'), 'p%s.NC%d' % (nm, nc), 'harness/print_arr.c', defs=['-DWHAT=%d' % what, '-DNC=%d' % nc, '-DN=%d' % (24 if what == 0 else 40), '-DTS=1'],
           unwind=5, unwindset=ML(42) + ['strlen.0:12', 'vf_sprintf.3:26'], stub=['print_value'] + (['print_string_ptr'] if what else []), cost=10 + nc,
           tiers=('quick', 'thorough') if nc <= 2 else ('thorough',), functions=['print_array', 'print_object', 'print_string_ptr', 'ensure', 'update_offset'])
for ts in (1, 2, 3):          # 4 bytes: no verdict within 20 min for any of the properties
    # the round trip through the real parse_string (C04) is much heavier than the print obligations: strings of 4 bytes give no verdict for C04
    for props, tmo in ((('C09', 'C05', 'C01'), 1800), (('C04',), 3000)):
        if 'C04' in props and ts == 4:
            continue
        QM(props, 'pstr.S%d' % ts, 'harness/print_str.c', defs=['-DTS=%d' % ts], unwind=ts + 3,
           unwindset=ML(6 * ts + 14) + ['strlen.0:%d' % (6 * ts + 6), 'memcmp.0:%d' % (ts + 3), 'vf_sprintf.3:26', 'vf_sprintf.0:8', 'vf_sprintf.1:8', 'vf_sprintf.2:8', 'parse_string.0:%d' % (6 * ts + 4), 'parse_string.1:%d' % (6 * ts + 4), 'ref_string.0:%d' % (6 * ts + 4), 'parse_hex4.0:5'], cost=8 * ts,
           tiers=('quick', 'thorough') if ts <= 2 else ('thorough',), timeout=tmo, mem_gb=30, functions=['print_string_ptr', 'ensure', 'parse_string', 'utf16_literal_to_utf8', 'parse_hex4'])
QM(('C04', 'C05', 'C09'), 'pnum', 'harness/print_num.c', unwind=28, unwindset=ML(42) + ML(42, 30, 'body') + ['vf_put_ulong.0:12', 'vf_put_ulong.1:12', 'vf_sprintf.0:28', 'vf_sprintf.1:28', 'vf_sprintf.2:28', 'vf_sprintf.3:28', 'strlen.0:8', 'memcmp.0:8'],
   cost=30, functions=['print_number', 'compare_double', 'ensure', 'get_decimal_point'], timeout=900, native_search=True)
QM(('C05', 'C09'), 'pleaf', 'harness/print_leaf.c', unwind=8, unwindset=ML(26), stub=['print_value', 'print_number', 'print_string_ptr', 'print_array', 'print_object'], cost=3,
   functions=['print_value', 'print_string', 'ensure'])
ENTFN = ['cJSON_PrintPreallocated', 'cJSON_Print', 'cJSON_PrintUnformatted', 'cJSON_PrintBuffered', 'print', 'ensure', 'update_offset', 'cJSON_InitHooks', 'cJSON_free']
for n in (0, 1, 2, 3, 6, 8, 13):
    QM(('C09', 'C05') + (('C20',) if n == 8 else ()), 'pentry.prealloc.N%d' % n, 'harness/print_entry.c', defs=['-DAPI=0', '-DN=%d' % n], unwind=10, unwindset=ML(16), stub=['print_value'], cost=2, functions=ENTFN)
for api in (1, 2):
    for hk in (0, 1, 2, 3):
        QM(('C04', 'C05', 'C07', 'C08', 'C14', 'C20'), 'pentry.api%d.hooks%d' % (api, hk), 'harness/print_entry.c', defs=['-DAPI=%d' % api, '-DHOOKS=%d' % hk], unwind=10, unwindset=ML(16) + ['vf_memcpy.0:66'], stub=['print_value'],
           cost=10, functions=ENTFN, tiers=('quick', 'thorough') if hk <= 1 else ('thorough',))

# ------------------------------------------------------------------ edit steps (C06, C07, C08)
EDIT_OPS = {1: 'AddItemToArray', 2: 'AddItemToObject', 3: 'AddItemToObjectCS', 4: 'AddItemReferenceToArray', 5: 'AddItemReferenceToObject', 6: 'InsertItemInArray',
            7: 'DetachItemViaPointer', 8: 'DetachItemFromArray', 9: 'DeleteItemFromArray', 10: 'DetachItemFromObject', 11: 'DetachItemFromObjectCaseSensitive',
            12: 'DeleteItemFromObject', 13: 'DeleteItemFromObjectCaseSensitive', 14: 'ReplaceItemViaPointer', 15: 'ReplaceItemInArray', 16: 'ReplaceItemInObject',
            17: 'ReplaceItemInObjectCaseSensitive', 18: 'queries', 19: 'setters', 20: 'AddKindToObject'}
for op, name in EDIT_OPS.items():
    for K in (2, 3, 4):
        QM(('C06', 'C07', 'C08') + (('C20',) if K == 2 else ()) + (('C14',) if K == 2 and op in (2, 3, 16) else ()), 'edit.%s.K%d' % (name, K), 'harness/edit.c', defs=['-DOP=%d' % op, '-DK=%d' % K], unwind=K + 3,
           unwindset=ML(K + 4, 60) + ['cJSON_Delete:2', 'cJSON_Delete.0:3', 'vf_build_rec:3', 'vf_memcpy.0:66', 'vf_strcpy.0:8', 'strlen.0:6', 'strcmp.0:6', 'strcpy.0:6', 'memcmp.0:4', 'check_list.0:%d' % (K + 3)],
           tiers=('quick', 'thorough') if K in (2, 3) else ('thorough',), cost=K * 5, solver=('cadical' if op == 18 else None), functions=['cJSON_' + name if op < 18 else name, 'add_item_to_array', 'add_item_to_object', 'create_reference', 'get_array_item', 'get_object_item', 'cJSON_Delete', 'cJSON_strdup'])
CRFN = ['cJSON_CreateNull', 'cJSON_CreateTrue', 'cJSON_CreateFalse', 'cJSON_CreateBool', 'cJSON_CreateNumber', 'cJSON_CreateString', 'cJSON_CreateRaw', 'cJSON_CreateArray', 'cJSON_CreateObject',
        'cJSON_CreateStringReference', 'cJSON_CreateObjectReference', 'cJSON_CreateArrayReference', 'cJSON_New_Item', 'cJSON_strdup', 'cJSON_Delete']
QM(('C06', 'C07', 'C08', 'C20'), 'create.single', 'harness/create.c', defs=['-DCNT=1'], unwind=5, unwindset=ML(6, 70) + ['cJSON_Delete:1', 'cJSON_Delete.0:2', 'vf_memcpy.0:66', 'strlen.0:6', 'strcmp.0:6'], cost=5, functions=CRFN)
for w, nm in ((12, 'IntArray'), (13, 'FloatArray'), (14, 'DoubleArray'), (15, 'StringArray')):
    for cnt in (2, 3, 4):
        QM(('C06', 'C07', 'C08'), 'create.%s.CNT%d' % (nm, cnt), 'harness/create.c', defs=['-DCNT=%d' % cnt, '-DWHICH=%d' % w], unwind=cnt + 3,
           unwindset=ML(cnt + 4, 70) + ['cJSON_Delete:1', 'cJSON_Delete.0:%d' % (cnt + 2), 'vf_memcpy.0:66', 'strlen.0:6', 'strcmp.0:6'], cost=cnt * 6,
           tiers=('quick', 'thorough') if cnt == (2 if w == 15 else 3) else ('thorough',), timeout=1200, functions=['cJSON_Create' + nm, 'cJSON_CreateNumber', 'cJSON_CreateString', 'cJSON_CreateArray', 'suffix_object', 'cJSON_Delete'])
for td, tk in ((1, 2), (1, 3), (2, 2)):      # (2, 3) does not finish in 20 min
    QM(('C07', 'C01') + (('C20',) if (td, tk) == (1, 2) else ()), 'delete.D%dK%d' % (td, tk), 'harness/delete.c', defs=['-DTD=%d' % td, '-DTK=%d' % tk], unwind=tk + 2,
       unwindset=ML(tk * tk + tk + 3, 30) + ['cJSON_Delete:%d' % td, 'cJSON_Delete.0:%d' % (tk + 2), 'vf_build_rec:%d' % (td + 1), 'vf_release:%d' % (td + 1), 'kept_blocks:%d' % (td + 1), 'vf_tree_assume.0:%d' % (tk * tk + tk + 3), 'memcmp.0:3'],
       cost=td * tk * 8, tiers=('quick', 'thorough') if (td, tk) != (2, 3) else ('thorough',), functions=['cJSON_Delete'], timeout=1200)
DUPFN = ['cJSON_Duplicate', 'cJSON_Duplicate_rec', 'cJSON_strdup', 'cJSON_New_Item', 'cJSON_Delete']
for td, tk in ((1, 2), (1, 3)):
    nn = 1 + tk + (tk * tk if td == 2 else 0)
    QM(('C11', 'C08', 'C07') + (('C20',) if tk == 2 else ()), 'dup.D%dK%d' % (td, tk), 'harness/dup.c', defs=['-DTD=%d' % td, '-DTK=%d' % tk] + (['-DNODELETE'] if td == 2 else []), unwind=tk + 2,
       unwindset=ML(nn + 2, 30) + ['cJSON_Delete:%d' % td, 'cJSON_Delete.0:%d' % (tk + 2), 'cJSON_Duplicate_rec:%d' % (td + 1), 'check_copy:%d' % (td + 1), 'vf_build_rec:%d' % (td + 1), 'vf_tree_assume.0:%d' % (nn + 2), 'memcmp.0:66', 'vf_memcpy.0:66', 'strlen.0:4', 'strcmp.0:4'],
       cost=td * tk * 10, tiers=('quick', 'thorough') if (td, tk) != (2, 2) else ('quick', 'thorough'), functions=DUPFN, timeout=1500)
for K in (2, 3, 4):
    QM(('C11', 'C08'), 'dupunit.K%d' % K, 'harness/dup_unit.c', defs=['-DK=%d' % K], unwind=K + 3, stub=['cJSON_Duplicate_rec'],
       unwindset=ML(K + 3, 40) + ['cJSON_Delete:1', 'cJSON_Delete.0:%d' % (K + 2), 'memcmp.0:66', 'vf_memcpy.0:66', 'strlen.0:4', 'strcmp.0:4'],
       cost=K * 4, tiers=('quick', 'thorough') if K == 3 else ('thorough',), functions=DUPFN)

# ------------------------------------------------------------------ C12 compare
for K in (2, 3):
    for ka, nm in ((8, 'number'), (32, 'array'), (64, 'object'), (-1, 'other')):
        QM(('C12',) + (('C20',) if K == 2 and nm in ('other', 'array') else ()), 'cmpunit.%s.K%d' % (nm, K), 'harness/compare_unit.c', defs=['-DK=%d' % K, '-DKA=%d' % ka], unwind=K + 3, stub=['cJSON_Compare'],
           unwindset=ML(K + 3, 60) + ['memcmp.0:66', 'strcmp.0:5', 'keq.0:5'], cost=K * 10, tiers=('quick', 'thorough') if K == 2 else ('thorough',),
           functions=['cJSON_Compare', 'compare_double', 'get_object_item', 'case_insensitive_strcmp'], timeout=1500)
    # objects with repeated member names: different key sets are unequal
    QM(('C12',), 'cmpunit.object.dup.K%d' % K, 'harness/compare_unit.c', defs=['-DK=%d' % K, '-DKA=64', '-DDUPKEYS'], unwind=K + 3, stub=['cJSON_Compare'],
       unwindset=ML(K + 3, 60) + ['memcmp.0:66', 'strcmp.0:5', 'keq.0:5'], cost=K * 10, tiers=('quick', 'thorough') if K == 2 else ('thorough',), witnesses=['end', 'dupkeys'],
       functions=['cJSON_Compare', 'get_object_item', 'case_insensitive_strcmp'], timeout=1500)

# ------------------------------------------------------------------ C19 sort
import math
for K in (2, 3, 4):
    for cs in (1, 0):
        for twice in (0, 1):
            if K == 4 and twice:
                continue      # exceeds 24 GB / 30 min; idempotence is decided for 2 and 3 members
            depth = int(math.ceil(math.log(K, 2)))
            QM(('C19',), 'sort.%s.K%d%s' % ('cs' if cs else 'ci', K, '.twice' if twice else ''), 'harness/sort.c', defs=['-DK=%d' % K, '-DCS=%d' % cs] + (['-DTWICE'] if twice else []), unwind=K + 1, link=['cJSON.c'],
               unwindset=ML(K + 3, 40) + ['sort_list:%d' % depth, 'strcmp.0:4', 'kcmp.0:4'], cost=K * K * (1 + twice), tiers=('quick', 'thorough') if (K == 2 or (K == 3 and not twice)) else ('thorough',),
               functions=['cJSONUtils_SortObject', 'cJSONUtils_SortObjectCaseSensitive', 'sort_object', 'sort_list', 'compare_strings'], timeout=1800, mem_gb=24)

# ------------------------------------------------------------------ C15 JSON pointer
PTRFN = ['cJSONUtils_GetPointerCaseSensitive', 'get_item_from_pointer', 'decode_array_index_from_pointer', 'compare_pointers', 'get_array_item', 'cJSONUtils_FindPointerFromObjectTo', 'encode_string_as_pointer', 'pointer_encoded_length']
for K, P in ((2, 4), (2, 5), (3, 5), (2, 6)):
    for shape in range(6):
        QM(('C15',), 'ptr.resolve.K%dP%d.S%d' % (K, P, shape), 'harness/pointer.c', defs=['-DK=%d' % K, '-DP=%d' % P, '-DMODE=0', '-DSHAPE=%d' % shape], unwind=K + 2, link=['cJSON.c'],
           unwindset=ML(K * K + K + 3, 50) + ['strcmp.0:4', 'get_item_from_pointer.0:%d' % (P + 2), 'get_item_from_pointer.1:%d' % (P + 2), 'get_item_from_pointer.2:%d' % (P + 2), 'get_item_from_pointer.3:%d' % (P + 2),   # one bound for all its loops: their numbering changes with harmless rewrites
                                                'decode_array_index_from_pointer.0:%d' % (P + 2),
                                                'compare_pointers.0:4', 'get_array_item.0:%d' % (K + 2), 'ref_resolve.0:%d' % (P + 2), 'ref_resolve.1:%d' % (P + 2), 'ref_resolve.2:4', 'ref_resolve.3:%d' % (K + 2), 'ref_resolve.4:%d' % (P + 2)],
           cost=K * P, tiers=('quick', 'thorough') if (K, P) == (2, 5) else ('thorough',), functions=PTRFN, timeout=1800)
for K in (2, 3, 4):
    QM(('C15', 'C07', 'C14'), 'ptrunit.build.K%d' % K, 'harness/ptr_unit.c', defs=['-DK=%d' % K], unwind=K + 2, link=['cJSON.c'], stub=['cJSONUtils_FindPointerFromObjectTo'], stub_lib='cJSON_Utils.c',
       unwindset=ML(K + 3, 50) + ['strcmp.0:10', 'vf_memcpy.0:10', 'strlen.0:10', 'strcat.0:10', 'strcat.1:10', 'vf_sprintf.0:8', 'vf_sprintf.1:10', 'vf_sprintf.2:8', 'vf_sprintf.3:8', 'vf_put_ulong.0:3', 'vf_put_ulong.1:3',
                                   'encode_string_as_pointer.0:4', 'pointer_encoded_length.0:4'], cost=K * 5,
       tiers=('quick', 'thorough') if K == 3 else ('thorough',), functions=PTRFN, timeout=1200)

# ------------------------------------------------------------------ C16 JSON patch
PATCHFN = ['apply_patch', 'decode_patch_operation', 'detach_path', 'decode_pointer_inplace', 'decode_array_index_from_pointer', 'detach_item_from_array', 'insert_item_in_array', 'overwrite_item', 'cJSONUtils_strdup', 'get_object_item',
           'cJSON_AddItemToArray', 'cJSON_AddItemToObject', 'cJSON_DeleteItemFromObjectCaseSensitive', 'cJSON_DetachItemFromObjectCaseSensitive', 'cJSON_Delete']
for opc, nm in ((1, 'add'), (2, 'remove'), (3, 'replace'), (4, 'move'), (5, 'copy'), (6, 'test'), (0, 'invalid')):
    QM(('C16',) + (('C14',) if nm in ('add', 'remove') else ()), 'patchunit.%s' % nm, 'harness/patch_unit.c', defs=['-DOPC=%d' % opc], unwind=7, link=['cJSON.c'], stub=['get_item_from_pointer', 'compare_json'], stub_lib='cJSON_Utils.c',
       unwindset=ML(8, 80) + ['cJSON_Delete:1', 'cJSON_Delete.0:4', 'strcmp.0:8', 'strlen.0:7', 'vf_memcpy.0:66', 'strncmp.0:7', 'strrchr.0:7', 'strcpy.0:8', 'vf_strcpy.0:10', 'get_object_item.0:5', 'get_object_item.1:5'], cost=20, functions=PATCHFN, timeout=1500)
QM(('C16', 'C17', 'C18', 'C19'), 'cmpjson.K2', 'harness/cmpjson.c', defs=['-DK=2'], unwind=4, link=['cJSON.c'], stub=['compare_json'], stub_lib='cJSON_Utils.c', unwindset=ML(5, 60) + ['sort_list:1', 'strcmp.0:3', 'check_wf.0:4', 'check_wf.1:4', 'check_wf.2:4', 'build.0:4'],
   cost=30, functions=['compare_json', 'sort_object', 'sort_list', 'compare_strings', 'compare_double'], timeout=1500)
QM(('C16',), 'decodeptr.L5', 'harness/decode_ptr.c', defs=['-DL=5'], unwind=8, link=['cJSON.c'], unwindset=ML(8, 20) + ['strcmp.0:8'], cost=3, functions=['decode_pointer_inplace'])

# ------------------------------------------------------------------ C17 generate patches
GENFN = ['create_patches', 'sort_object', 'sort_list', 'compare_strings', 'compare_double', 'encode_string_as_pointer', 'pointer_encoded_length']
for K in (2,):        # K = 3 gives no verdict within 60 min / 25 GB (MiniSat and CaDiCaL)
    QM(('C17', 'C19'), 'genunit.K%d' % K, 'harness/genpatch_unit.c', defs=['-DK=%d' % K], unwind=K + 2, link=['cJSON.c'], stub=['compose_patch', 'create_patches'], stub_lib='cJSON_Utils.c',
       unwindset=ML(2 * K + 4, 120) + ['create_patches__real.3:%d' % (2 * K + 2), 'sort_list:%d' % (1 if K == 2 else 2), 'strcmp.0:12', 'strlen.0:12', 'put.0:12', 'count_rec.0:%d' % (2 * K + 4), 'vf_memcpy.0:12', 'vf_sprintf.0:8', 'vf_sprintf.1:12', 'vf_sprintf.2:8', 'vf_sprintf.3:8',
                                       'vf_put_ulong.0:3', 'vf_put_ulong.1:3', 'encode_string_as_pointer.0:3', 'pointer_encoded_length.0:3', 'check_wf.0:%d' % (K + 2), 'check_wf.1:%d' % (K + 2), 'check_wf.2:%d' % (K + 2), 'build.0:%d' % (K + 2)],
       cost=40, tiers=('quick', 'thorough') if K == 2 else ('thorough',), functions=GENFN, timeout=1800, mem_gb=45)

# ------------------------------------------------------------------ C18 merge patch
MERFN = ['merge_patch', 'generate_merge_patch', 'sort_object', 'sort_list', 'compare_strings', 'cJSON_DetachItemFromObjectCaseSensitive', 'cJSON_DeleteItemFromObjectCaseSensitive', 'cJSON_AddItemToObject', 'cJSON_CreateObject', 'cJSON_CreateNull', 'cJSON_Delete']
for K in (2, 3):
    QM(('C18',), 'mergeunit.apply.K%d' % K, 'harness/merge_unit.c', defs=['-DMODE=0', '-DK=%d' % K], unwind=K + 2, link=['cJSON.c'], stub=['merge_patch'], stub_lib='cJSON_Utils.c',
       unwindset=ML(2 * K + 3, 120) + ['get_object_item.0:%d' % (2 * K + 2), 'get_object_item.1:%d' % (2 * K + 2), 'get_object_item$link1.0:%d' % (2 * K + 2), 'get_object_item$link1.1:%d' % (2 * K + 2), 'cJSON_Delete:1', 'cJSON_Delete.0:%d' % (K + 2 if K == 2 else 2 * K + 2), 'strcmp.0:3', 'strlen.0:3', 'vf_memcpy.0:66', 'count_members.0:%d' % (2 * K + 3), 'member.0:%d' % (2 * K + 3), 'check_wf16.0:%d' % (2 * K + 3), 'check_wf16.1:%d' % (2 * K + 3)],
       cost=30, tiers=('quick', 'thorough') if K == 2 else ('thorough',), functions=MERFN, timeout=1800)
    QM(('C18', 'C19'), 'mergeunit.gen.K%d' % K, 'harness/merge_unit.c', defs=['-DMODE=1', '-DK=%d' % K], unwind=K + 2, link=['cJSON.c'], stub=['generate_merge_patch', 'compare_json'], stub_lib='cJSON_Utils.c',
       unwindset=ML(2 * K + 3, 120) + ['generate_merge_patch__real.0:%d' % (2 * K + 2), 'cJSON_Delete:1', 'cJSON_Delete.0:%d' % (K + 2), 'sort_list:%d' % (1 if K == 2 else 2), 'strcmp.0:3', 'strlen.0:3', 'vf_memcpy.0:66', 'count_members.0:%d' % (2 * K + 3), 'member.0:%d' % (2 * K + 3), 'check_wf16.0:%d' % (2 * K + 3), 'check_wf16.1:%d' % (2 * K + 3)],
       cost=40, tiers=('quick', 'thorough') if K == 2 else ('thorough',), functions=MERFN, timeout=1800, mem_gb=24)

# harness/mergegen_nested.c (real generate_merge_patch/compare_json/sort_object recursion over two levels, no stubs) is NOT registered:
# no verdict within 30 min even for 2+1 nested members (MiniSat and CaDiCaL), see DESIGN.md section 8 (C18h) and section 10
# ------------------------------------------------------------------ C14 hooks table
QM(('C14',), 'hooks.table', 'harness/hooks.c', unwind=4, unwindset=ML(4, 30) + ['cJSON_Delete:1', 'cJSON_Delete.0:2', 'vf_memcpy.0:66', 'strlen.0:4'], cost=3, functions=['cJSON_InitHooks', 'cJSON_malloc', 'cJSON_free', 'cJSON_CreateString', 'cJSON_Delete'])
QM(('C17', 'C14'), 'compose', 'harness/compose_unit.c', unwind=6, link=['cJSON.c'],
   unwindset=ML(6, 60) + ['strcmp.0:12', 'strlen.0:12', 'vf_memcpy.0:66', 'vf_sprintf.0:8', 'vf_sprintf.1:12', 'vf_sprintf.2:8', 'vf_sprintf.3:8', 'encode_string_as_pointer.0:4', 'pointer_encoded_length.0:4', 'cJSON_Delete:1', 'cJSON_Delete.0:3'],
   cost=10, witnesses=['end', 'composed'], functions=['compose_patch', 'cJSONUtils_AddPatchToArray', 'encode_string_as_pointer', 'pointer_encoded_length', 'cJSON_CreateObject', 'cJSON_CreateString', 'cJSON_AddItemToObject', 'cJSON_AddItemToArray'], timeout=1200)
QM(('C16', 'C17', 'C18'), 'cmpjson.number', 'harness/cmpjson.c', defs=['-DK=1', '-DNUMMODE'], unwind=3, link=['cJSON.c'], stub=['compare_json'], stub_lib='cJSON_Utils.c', unwindset=ML(4, 40), cost=10, witnesses=['number'],
   functions=['compare_json', 'compare_double'], timeout=900)

# (the integration query of the real parser without stubs - harness/parse_e2e.c, M = 1..2, nesting limit 2 - gave no verdict in 60 min
#  and is not registered)
QM(('C15', 'C16'), 'ptr.index.L4', 'harness/ptr_index.c', defs=['-DL=4'], unwind=8, link=['cJSON.c'], unwindset=ML(8, 20), cost=3, functions=['decode_array_index_from_pointer'])

# ------------------------------------------------------------------ post-processing: the sprintf model has 9 loops; give all of them the largest bound the query asked for
for _q in QUERIES:
    _vals = [int(e.split(':')[1]) for e in _q['unwindset'] if e.startswith('vf_sprintf.')]
    if _vals:
        _q['unwindset'] = [e for e in _q['unwindset'] if not e.startswith('vf_sprintf.')] + ['vf_sprintf.%d:%d' % (i, max(_vals)) for i in range(10)]

# the libc string models of vf_str.h get the largest bound of the query for all their loops
for _q in QUERIES:
    _all = [int(e.split(':')[1]) for e in _q['unwindset'] if ':' in e and not e.split(':')[0].endswith('main.0')] + ([_q['unwind']] if _q.get('unwind') else [])
    _b = max([v for v in _all if v <= 70] or [8])
    _q['unwindset'] = _q['unwindset'] + ['%s.%d:%d' % (f, i, _b) for f in ('vf_strcspn', 'vf_strspn', 'vf_memchr', 'vf_strstr') for i in range(3)]
    if not any(e.startswith('vf_memcpy.') for e in _q['unwindset']):
        _q['unwindset'].append('vf_memcpy.0:66')
    if not any(e.startswith('vf_strcpy.') for e in _q['unwindset']):
        _q['unwindset'].append('vf_strcpy.0:%d' % max(_b, 8))
    # the separately linked cJSON.c carries its own copies of the models (goto-cc renames file-local clashes to <name>$link1)
    _q['unwindset'] = _q['unwindset'] + [e.replace('.', '$link1.', 1) for e in _q['unwindset'] if e.startswith(('vf_memcpy.', 'vf_strcpy.', 'vf_strcspn.', 'vf_strspn.', 'vf_memchr.', 'vf_strstr.'))]
