/* Native confirmation driver for C20: N threads work on PRIVATE data (parse incl. failing parses with return_parse_end, print numbers
 * that need %g formatting, duplicate, compare, minify, patch, delete) and compare every result with the value computed sequentially
 * before the threads start. exit 0 = all equal. Built twice: -fsanitize=thread (race report) and plain (result comparison). */
#include <pthread.h>
#include <time.h>
#include <stdio.h>
#include <stdlib.h>
#include <string.h>
#include "cJSON.h"
#include "cJSON_Utils.h"
#define NT 6
#define ROUNDS 400
typedef struct { int id; char doc[160]; char bad[64]; char expect_print[400]; long expect_end; char expect_min[160]; int fail; } job;
static job jobs[NT]; static pthread_barrier_t barrier; static volatile int stop_all;
static void one(job *j, int check)
{
    const char *end = 0; cJSON *t, *d, *b; char *s; char m[160];
    t = cJSON_Parse(j->doc);
    s = cJSON_PrintUnformatted(t);
    if (check) { if (strcmp(s, j->expect_print) != 0) j->fail |= 1; } else strcpy(j->expect_print, s);
    d = cJSON_Duplicate(t, 1);
    if (!cJSON_Compare(t, d, 1)) j->fail |= 2;
    b = cJSON_ParseWithOpts(j->bad, &end, 1);
    if (b != 0) j->fail |= 4;
    if (check) { if (end - j->bad != j->expect_end) j->fail |= 8; } else j->expect_end = end - j->bad;
    strcpy(m, j->doc); cJSON_Minify(m);
    if (check) { if (strcmp(m, j->expect_min) != 0) j->fail |= 16; } else strcpy(j->expect_min, m);
    { cJSON *p = cJSONUtils_GeneratePatchesCaseSensitive(t, d); if (cJSON_GetArraySize(p) != 0) j->fail |= 32; cJSON_Delete(p); }
    cJSON_free(s); cJSON_Delete(d); cJSON_Delete(t);
}
static void *worker(void *a)
{
    job *j = (job *)a; int r;
    for (r = 0; r < ROUNDS; r++) one(j, 1);
    /* tight phase: only failing parses that report their end position (the window in which a shared error record would be observed) */
    { time_t t0; long q; pthread_barrier_wait(&barrier); t0 = time(0);
      for (q = 0; q < 20000000L && !stop_all; q++) { const char *end = 0; cJSON *b = cJSON_ParseWithOpts(j->bad, &end, 1); if (b != 0 || end - j->bad != j->expect_end) { j->fail |= 64; stop_all = 1; break; } if ((q & 1023) == 0 && time(0) - t0 >= 3) break; } }
    return 0;
}
int main(void)
{
    pthread_t th[NT]; int i, bad = 0;
    for (i = 0; i < NT; i++) {
        jobs[i].id = i;
        sprintf(jobs[i].doc, "{ \"k%d\" : [ %d.%d25, 0.1%d, 1e-%d, \"s%d\" ], \"n\" : { \"x\" : %d.5 } }", i, i + 1, i, i, i + 3, i, i * 7);
        sprintf(jobs[i].bad, "[%d, %d,%*s?", i, i, i + 1, "");
        one(&jobs[i], 0);
    }
    pthread_barrier_init(&barrier, 0, NT);
    for (i = 0; i < NT; i++) pthread_create(&th[i], 0, worker, &jobs[i]);
    for (i = 0; i < NT; i++) pthread_join(th[i], 0);
    for (i = 0; i < NT; i++) if (jobs[i].fail) { printf("thread %d: results differ from the sequential run (mask %d)\n", i, jobs[i].fail); bad = 1; }
    return bad;
}
