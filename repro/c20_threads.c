/* Native confirmation driver for C20: N threads work on PRIVATE data (parse incl. \u escapes and failing parses with return_parse_end,
 * print numbers that need %g formatting, duplicate, compare, minify, generate patches, delete). No library call happens before the
 * threads start (so that first-use initialisation inside the library is exercised concurrently); every thread records its first
 * results and checks all later rounds against them; after the threads have been joined main computes the sequential results and
 * compares. exit 0 = all equal. Built twice: -fsanitize=thread (race report) and plain (result comparison). */
#include <pthread.h>
#include <time.h>
#include <stdio.h>
#include <stdlib.h>
#include <string.h>
#include "cJSON.h"
#include "cJSON_Utils.h"
#define NT 6
#define ROUNDS 300
typedef struct { int id; char doc[200]; char bad[64]; char print[500]; long end; char min[200]; int have; int fail; } job;
static job jobs[NT]; static pthread_barrier_t barrier; static volatile int stop_all;
static void one(job *j, job *ref)
{
    const char *end = 0; cJSON *t, *d, *b; char *s; char m[200];
    t = cJSON_Parse(j->doc);
    if (t == 0) { j->fail |= 128; return; }
    s = cJSON_PrintUnformatted(t);
    if (ref->have) { if (strcmp(s, ref->print) != 0) j->fail |= 1; } else strcpy(ref->print, s);
    d = cJSON_Duplicate(t, 1);
    if (!cJSON_Compare(t, d, 1)) j->fail |= 2;
    b = cJSON_ParseWithOpts(j->bad, &end, 1);
    if (b != 0) j->fail |= 4;
    if (end - j->bad != j->end) j->fail |= 8;
    strcpy(m, j->doc); cJSON_Minify(m);
    if (ref->have) { if (strcmp(m, ref->min) != 0) j->fail |= 16; } else strcpy(ref->min, m);
    { cJSON *p = cJSONUtils_GeneratePatchesCaseSensitive(t, d); if (cJSON_GetArraySize(p) != 0) j->fail |= 32; cJSON_Delete(p); }
    ref->have = 1;
    cJSON_free(s); cJSON_Delete(d); cJSON_Delete(t);
}
static void *worker(void *a)
{
    job *j = (job *)a; int r;
    pthread_barrier_wait(&barrier);
    for (r = 0; r < ROUNDS; r++) one(j, j);
    /* tight phase: only failing parses that report their end position (the window in which a shared error record would be observed) */
    { time_t t0; long q; pthread_barrier_wait(&barrier); t0 = time(0);
      for (q = 0; q < 20000000L && !stop_all; q++) { const char *end = 0; cJSON *b = cJSON_ParseWithOpts(j->bad, &end, 1); if (b != 0 || end - j->bad != j->end) { j->fail |= 64; stop_all = 1; break; } if ((q & 1023) == 0 && time(0) - t0 >= 3) break; } }
    return 0;
}
int main(void)
{
    pthread_t th[NT]; int i, bad = 0;
    for (i = 0; i < NT; i++) {
        jobs[i].id = i;
        sprintf(jobs[i].doc, "{ \"k%d\" : [ %d.%d25, 0.1%d, 1e-%d, \"s\\u00e%d\\uD83D\\uDE0%d\" ], \"n\" : { \"x\" : %d.5 } }", i, i + 1, i, i, i + 3, i, i, i * 7);
        sprintf(jobs[i].bad, "[%d, %d,%*s?", i, i, i + 1, "");
        jobs[i].end = (long)(strchr(jobs[i].bad, '?') - jobs[i].bad);        /* where a failing parse must report its end: no library call needed */
    }
    pthread_barrier_init(&barrier, 0, NT);
    for (i = 0; i < NT; i++) pthread_create(&th[i], 0, worker, &jobs[i]);
    for (i = 0; i < NT; i++) pthread_join(th[i], 0);
    for (i = 0; i < NT; i++) {
        job seq; memset(&seq, 0, sizeof seq); strcpy(seq.doc, jobs[i].doc); strcpy(seq.bad, jobs[i].bad); seq.end = jobs[i].end;
        one(&seq, &seq);                                                       /* sequential reference, computed afterwards */
        if (seq.fail || strcmp(seq.print, jobs[i].print) != 0 || strcmp(seq.min, jobs[i].min) != 0) jobs[i].fail |= 256;
        if (jobs[i].fail) { printf("thread %d: results differ from the sequential run (mask %d)\n", i, jobs[i].fail); bad = 1; }
    }
    return bad;
}
