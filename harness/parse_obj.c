/* Unit: parse_object on a buffer object of exactly M bytes (all symbolic) with parse_value AND parse_string replaced by
 * their contract stubs.  ok == ref_ok against a transcription of the RFC 8259 object grammar decides C02 and C03. */
#ifndef M
#define M 6
#endif
#define VF_NCALL ((M + 2) / 4 + 1)
#define VF_INPUTS(X) X(unsigned char, b, [M]) X(unsigned, off, ) X(unsigned, depth, ) X(unsigned char, fail_at, ) \
    X(unsigned char, pv_ok, [VF_NCALL]) X(unsigned char, pv_len, [VF_NCALL]) X(unsigned char, pv_kind, [VF_NCALL]) \
    X(unsigned char, ps_ok, [VF_NCALL]) X(unsigned char, ps_len, [VF_NCALL])
#include "vf.h"
#include "vf_str.h"
#ifndef VF_LIB
#define VF_LIB "cJSON.c"
#endif
#include VF_LIB
#include "vf_stubs.h"

static int ref_object(const unsigned char *c, size_t off, size_t *end, unsigned *count)
{
    size_t i = off + 1; unsigned k = 0;
    while (i < M && c[i] <= 0x20) i++;
    if (i < M && c[i] == '}') { *end = i + 1; *count = 0; return 1; }
    for (;;) {
        if (k >= VF_NCALL) return 0;
        if (!(i < M && IN.ps_ok[k] && c[i] == '"' && IN.ps_len[k] >= 2 && IN.ps_len[k] <= M - i)) return 0;
        i += IN.ps_len[k];
        while (i < M && c[i] <= 0x20) i++;
        if (!(i < M && c[i] == ':')) return 0;
        i++;
        while (i < M && c[i] <= 0x20) i++;
        if (!(i < M && IN.pv_ok[k] && vf_value_start(c[i]) && IN.pv_len[k] >= 1 && IN.pv_len[k] <= M - i)) return 0;
        i += IN.pv_len[k]; k++;
        while (i < M && c[i] <= 0x20) i++;
        if (i < M && c[i] == ',') { i++; while (i < M && c[i] <= 0x20) i++; continue; }
        if (i < M && c[i] == '}') { *end = i + 1; *count = k; return 1; }
        return 0;
    }
}

int main(VF_MAIN_ARGS)
{
    parse_buffer buf; cJSON item; unsigned char *content; cJSON_bool ok; size_t off, end = 0; unsigned count = 0, n; int ref_ok; cJSON *c, *last;
    VF_INIT();
    VF_ASSUME(IN.off < M && IN.b[IN.off] == '{');
    VF_ASSUME(IN.depth <= CJSON_NESTING_LIMIT);
    off = IN.off;
    content = (unsigned char *)vf_exact(IN.b, M);
    memset(&buf, 0, sizeof buf); memset(&item, 0, sizeof item);
    buf.content = content; buf.length = M; buf.offset = off; buf.depth = IN.depth;
    buf.hooks.allocate = vf_malloc; buf.hooks.deallocate = vf_free; buf.hooks.reallocate = 0;
    global_hooks.allocate = vf_malloc; global_hooks.deallocate = vf_free; global_hooks.reallocate = 0;
    vf_fail_at = IN.fail_at;

    ok = parse_object(&item, &buf);

    VF_AP(1, memcmp(content, IN.b, M) == 0, "C01 input not written");
    VF_AP(10, buf.offset <= buf.length, "C10 offset stays inside the buffer");
    for (n = 0; n < pv_calls && n < VF_NCALL; n++) VF_AP(1, pv_depth[n] > IN.depth && pv_depth[n] <= CJSON_NESTING_LIMIT, "C01 nested values are parsed at a strictly deeper level and never beyond CJSON_NESTING_LIMIT");
    if (IN.depth >= CJSON_NESTING_LIMIT) {
        VF_AP(3, !ok && vf_nreq == 0 && pv_calls == 0 && ps_calls == 0, "C03 nesting beyond CJSON_NESTING_LIMIT is refused before any allocation or recursion");
        VF_WITNESS("limit");
    }
    if (ok) {
        VF_AP(1, buf.depth == IN.depth, "C01 depth restored on success");
        VF_AP(1, item.type == cJSON_Object, "C01 type is object");
        n = 0; last = 0;
        for (c = item.child; c != 0 && n <= VF_NCALL; c = c->next) {
            VF_AP(1, n < pv_calls && n < ps_calls && c == pv_item[n] && pv_result[n] && ps_result[n], "C02 members are exactly the parsed pairs in input order");
            if (n < VF_NCALL) {
                VF_AP(2, c->string != 0 && c->string == ps_block[n], "C02 member key is the string parse_string produced");
                VF_AP(2, c->valuestring == pv_block[n], "C02 member value is what parse_value produced");
            }
            if (n > 0) VF_AP(1, c->prev == last, "C01 prev mirrors next");
            last = c; n++;
        }
        VF_AP(1, n == pv_calls && n == ps_calls, "C02 every parsed pair is a member");
        if (item.child) VF_AP(1, item.child->prev == last, "C01 first child's prev designates the last child");
        VF_WITNESS("accepted");
    } else {
        VF_AP(3, vf_live == 0, "C03 rejected object leaves no allocation behind");
        VF_AP(8, vf_live == 0, "C08 failed parse_object leaves no allocation behind");
        VF_AP(3, item.child == 0 && item.type == 0, "C03 rejected object leaves the item empty");
    }
    if ((VF_ON(2) || VF_ON(3)) && IN.fail_at == 0 && IN.depth < CJSON_NESTING_LIMIT) {
        ref_ok = ref_object(content, off, &end, &count);
        if (ref_ok) {
            VF_AP(2, ok, "C02 object text matching the grammar is accepted");
            if (ok) { VF_AP(2, buf.offset == end, "C02 offset is just after the closing brace"); VF_AP(2, pv_calls == count, "C02 member count"); }
            VF_WITNESS("valid");
        } else {
            VF_AP(3, !ok, "C03 object text not matching the grammar is rejected");
            VF_WITNESS("invalid");
        }
    }
    VF_WITNESS("end");
    if (ok) { for (c = item.child; c != 0; ) { cJSON *nx = c->next; if (c->valuestring) vf_free(c->valuestring); if (c->string) vf_free(c->string); vf_free(c); c = nx; } VF_AP(1, vf_live == 0, "C01 everything the object owns is reachable from it"); }
    free(content);
    return 0;
}
