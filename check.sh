#!/bin/bash
# usage: check.sh <Cxx> [quick|thorough]   (cwd = /verif) - rebuilds everything from /repo's working tree on every run
cd "$(dirname "$0")"
tier=${2:-${VERIF_TIER:-quick}}
exec python3 vf/vf.py check "$1" --tier "$tier"
