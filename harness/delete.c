/* cJSON_Delete on every well-formed tree of height <= TD with <= TK children per container, including constant keys,
 * string references and container references: every block the tree OWNS is released exactly once (ledger + CBMC's
 * double-free / invalid-free / use-after-free checks), borrowed keys/strings are not touched, and the children of a
 * reference container stay alive and unchanged (the harness releases them afterwards). Contract used by edit.c / parse units. */
#ifndef TD
#define TD 2
#endif
#ifndef TK
#define TK 2
#endif
#define TS 1
#define VF_FLAGS (VF_FLAG_REF | VF_FLAG_CONSTKEY | VF_FLAG_REFCONT)
#define VF_KINDS 0xFF
#include "vf_tree.h"
#define VF_INPUTS(X) VF_TREE_INPUTS(X) X(unsigned char, nullarg, )
#define VF_MAXSZ 7
#include "vf.h"
#include "vf_str.h"
#include "vf_tree.h"
#define malloc vf_malloc
#define free vf_free
#define realloc vf_realloc
#include "cJSON.c"
#undef malloc
#undef free
#undef realloc
#include "vf_frame.h"

static vf_tree T;
/* blocks owned by the subtree at i that a delete of it must NOT release because an ancestor-or-self container is a reference */
static long kept_blocks(unsigned i, int under_ref)
{
    cJSON *n = T.node[i]; long c = 0; unsigned j, nk;
    if (n == 0) return 0;
    if (under_ref) { c += 1; if (T.ownkey[i]) c += 1; if (T.ownstr[i]) c += 1; }
    nk = vf_tnk(&T, i);
    for (j = 0; j < nk; j++) c += kept_blocks(i * TK + 1 + j, under_ref || T.bcont[i]);
    return c;
}

int main(VF_MAIN_ARGS)
{
    cJSON *root; unsigned i; long keep;
    VF_INIT();
    VF_TREE_BIND(T, t_);
    root = vf_build(&T);
    keep = kept_blocks(0, 0);
    if (IN.nullarg & 1) { cJSON_Delete(0); VF_AP(7, vf_nfree == 0, "C07 deleting NULL does nothing"); }

    VF_FRAME_BEGIN();
    cJSON_Delete(root);
    VF_FRAME_END(0);

    VF_AP(7, vf_live == keep, "C07 delete releases exactly the blocks the tree owns (children of reference nodes stay alive)");
    VF_AP(1, vf_live == keep, "C01 a well-formed tree can be deleted without error");
    for (i = 0; i < TNN; i++) {
        if (T.bkey[i]) VF_AP(7, memcmp(vf_borrow_key[i], IN.t_key[i], TS) == 0 && vf_borrow_key[i][TS] == 0, "C07 constant keys are never modified or released");
        if (T.bstr[i]) VF_AP(7, memcmp(vf_borrow_str[i], IN.t_str[i], TS) == 0 && vf_borrow_str[i][TS] == 0, "C07 referenced strings are never modified or released");
    }
    /* children of reference containers are still intact: walk and release them harness-side (use-after-free would be flagged) */
    for (i = 0; i < TNN; i++) if (T.bcont[i] && i * TK + 1 < TNN && vf_tnk(&T, i) > 0) {
        cJSON *c = T.node[i * TK + 1];      /* first child of reference container i: released exactly once, here */
        VF_AP(7, c->prev != 0, "C07 referenced children keep their links");
        vf_release(c);
    }
    VF_AP(7, vf_live == 0, "C07 after releasing the referenced children nothing remains");
    VF_WITNESS("end");
    return 0;
}
