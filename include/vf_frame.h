/* vf_frame.h - C20 frame obligations. Include AFTER the library source (needs global_error / global_hooks).
 * VF_FRAME_BEGIN() snapshots the library's writable file-scope statics, VF_FRAME_END(parse) asserts afterwards that
 * global_hooks is bit-identical and - unless the call is a parse entry point (parse != 0), which is documented to publish the error
 * position - that global_error is bit-identical as well. */
#ifndef VF_FRAME_H
#define VF_FRAME_H
static error vf_frame_err; static internal_hooks vf_frame_hooks;
#define VF_FRAME_BEGIN() do { vf_frame_err = global_error; vf_frame_hooks = global_hooks; } while (0)
#define VF_FRAME_END(parse) do { \
    VF_AP(20, vf_frame_hooks.allocate == global_hooks.allocate && vf_frame_hooks.deallocate == global_hooks.deallocate && vf_frame_hooks.reallocate == global_hooks.reallocate, "C20 the call does not write the hook table (shared static)"); \
    if (!(parse)) VF_AP(20, vf_frame_err.json == global_error.json && vf_frame_err.position == global_error.position, "C20 the call does not write the global error position (shared static)"); \
} while (0)
#endif
