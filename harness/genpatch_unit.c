/* Unit: create_patches (RFC 6902 patch generation, case-sensitive) on one pair of nodes with <= K children each; its recursive
 * call and compose_patch are replaced by recording stubs, sort_object/sort_list are real.
 * Spec (independent reference diff): kinds differ -> replace at path; numbers/strings differ -> replace; arrays: recurse on the
 * common prefix at path/i, then one remove at index min(nf,nt) per surplus source element, then one add at "-" per surplus target
 * element (in order); objects (distinct keys): recurse at path/escaped-key for common keys, remove for source-only keys, add
 * (with the target value) for target-only keys - each exactly once.  Applying these operations turns 'from' into 'to' provided
 * the recursive patches do (induction), so equal documents give no operation.  Inputs stay well-formed with the same members. */
#ifndef K
#define K 2
#endif
#define NREC (2 * K + 2)
#define VF_SZ_LIST(X) X(4) X(5) X(6) X(24)
#define VF_MAXDIGITS 2
#define VF_INPUTS(X) X(unsigned char, kf, ) X(unsigned char, kt, ) X(unsigned char, nf, ) X(unsigned char, nt, ) X(unsigned char, keyf, [K]) X(unsigned char, keyt, [K]) X(unsigned char, fl, [2]) \
    X(int, vf, ) X(int, vt, ) X(double, df, ) X(double, dt, ) X(unsigned char, sf, ) X(unsigned char, st, ) X(unsigned char, path, [3]) \
    X(unsigned char, g_text, [2][26]) X(double, g_val, ) X(double, strtod_val, ) X(unsigned char, dp, )
#include "vf.h"
#include "vf_str.h"
#define VF_MODEL_PRINTF
#include "vf_libc.h"
#include "vf_mem.h"
#ifndef VF_LIB
#define VF_LIB "cJSON_Utils.c"
#endif
#include "vf_trap.h"
#include VF_LIB
#include "vf_untrap.h"

typedef struct { int kind; /* 1 compose 2 recurse */ char op[8]; char path[12]; char suffix[6]; int has_suffix; const cJSON *value; const cJSON *a, *b; } rec_t;
static rec_t rec[NREC]; static unsigned nrec; static cJSON patches_dummy;
static void put(char *dst, size_t cap, const unsigned char *src) { size_t i = 0; if (src) for (; i + 1 < cap && src[i]; i++) memcpy(dst + i, src + i, 1); dst[i] = 0; }
static void compose_patch(cJSON * const patches, const unsigned char * const operation, const unsigned char * const path, const unsigned char *suffix, const cJSON * const value)
{
    rec_t *r; VF_BOUND(nrec < NREC, "more operations than NREC"); VF_ASSUME(nrec < NREC);
    r = &rec[nrec++]; r->kind = 1;
    VF_ASSERT(patches == &patches_dummy && operation != 0 && path != 0, "STUB compose_patch: patch array, operation and path given");
    put(r->op, sizeof r->op, operation); put(r->path, sizeof r->path, path); put(r->suffix, sizeof r->suffix, suffix); r->has_suffix = suffix != 0; r->value = value;
}
static void create_patches(cJSON * const patches, const unsigned char * const path, cJSON * const from, cJSON * const to, const cJSON_bool case_sensitive)
{
    rec_t *r; VF_BOUND(nrec < NREC, "more operations than NREC"); VF_ASSUME(nrec < NREC);
    r = &rec[nrec++]; r->kind = 2;
    VF_ASSERT(patches == &patches_dummy && case_sensitive, "STUB create_patches: same patch array, case-sensitive");
    put(r->path, sizeof r->path, path); r->a = from; r->b = to; r->op[0] = 0; r->suffix[0] = 0; r->has_suffix = 0; r->value = 0;
}

static cJSON F, T, cf[K], ct[K]; static char kfb[K][2], ktb[K][2], sfb[2], stb[2], pathb[4]; static unsigned nf, nt;
static int ckind(unsigned char k) { switch (k % 5) { case 0: return cJSON_Array; case 1: return cJSON_Object; case 2: return cJSON_Number; case 3: return cJSON_String; default: return cJSON_True; } }
static void build(cJSON *root, cJSON *kids, unsigned cnt, const unsigned char *keys, char (*kb)[2])
{
    unsigned i;
    for (i = 0; i < cnt; i++) { memset(&kids[i], 0, sizeof kids[i]); kids[i].type = cJSON_NULL; memcpy(kb[i], &keys[i], 1); kb[i][1] = 0; kids[i].string = kb[i]; if (i) { kids[i - 1].next = &kids[i]; kids[i].prev = &kids[i - 1]; } }
    if (cnt) { root->child = &kids[0]; kids[0].prev = &kids[cnt - 1]; }
}
static void esc(char *dst, const char *prefix, unsigned char key)
{
    size_t o = strlen(prefix); memcpy(dst, prefix, o); dst[o++] = '/';
    if (key == '~') { dst[o++] = '~'; dst[o++] = '0'; } else if (key == '/') { dst[o++] = '~'; dst[o++] = '1'; } else if (key) { memcpy(dst + o, &key, 1); o++; }
    dst[o] = 0;
}
static unsigned count_rec(int kind, const char *op, const char *path, int has_suffix, const char *suffix, const cJSON *value, const cJSON *a, const cJSON *b)
{
    unsigned i, c = 0;
    for (i = 0; i < nrec; i++) if (rec[i].kind == kind && strcmp(rec[i].op, op) == 0 && strcmp(rec[i].path, path) == 0 && rec[i].has_suffix == has_suffix && strcmp(rec[i].suffix, suffix) == 0 && rec[i].value == value && rec[i].a == a && rec[i].b == b) c++;
    return c;
}
static void check_wf(const cJSON *root, const cJSON *kids, unsigned cnt)
{
    const cJSON *c, *last = 0; unsigned g = 0, i;
    for (c = root->child; c != 0 && g <= K; c = c->next, g++) { if (g) { VF_AP(17, c->prev == last, "C17 inputs stay well-formed: backward links mirror forward links"); VF_AP(19, c->prev == last, "C19 after patch generation: backward links mirror forward links"); } last = c; }
    VF_AP(17, g == cnt && c == 0, "C17 inputs keep exactly their members");
    if (cnt) { VF_AP(17, root->child->prev == last, "C17 inputs stay well-formed: tail link"); VF_AP(19, root->child->prev == last, "C19 after patch generation: the first member's backward link designates the last member"); }
    for (i = 0; i < cnt; i++) { unsigned seen = 0; g = 0; for (c = root->child; c != 0 && g <= K; c = c->next, g++) if (c == &kids[i]) seen++; VF_AP(17, seen == 1, "C17 inputs keep the same member nodes (only the order may change)"); }
}

#define VF_FL(b) ((((b) & 2) ? cJSON_StringIsConst : 0) | (((b) & 4) ? cJSON_IsReference : 0))   /* ownership flag bits: they never change what a node means */
int main(VF_MAIN_ARGS)
{
    unsigned i, j, expected = 0; int kf, kt; char p2[12], idx[4];
    VF_INIT(); VF_LIBC_ASSUME();
    { cJSON_Hooks h; h.malloc_fn = vf_malloc; h.free_fn = vf_free; cJSON_InitHooks(&h); }
    kf = ckind(IN.kf); kt = ckind(IN.kt);
    nf = (kf == cJSON_Array || kf == cJSON_Object) ? IN.nf % (K + 1) : 0; nt = (kt == cJSON_Array || kt == cJSON_Object) ? IN.nt % (K + 1) : 0;
    memset(&F, 0, sizeof F); memset(&T, 0, sizeof T); F.type = kf | VF_FL(IN.fl[0]); T.type = kt | VF_FL(IN.fl[1]);
    VF_ASSUME(IN.df == IN.df && IN.dt == IN.dt);
    F.valueint = IN.vf; T.valueint = IN.vt; F.valuedouble = IN.df; T.valuedouble = IN.dt;
    memcpy(sfb, &IN.sf, 1); sfb[1] = 0; memcpy(stb, &IN.st, 1); stb[1] = 0; F.valuestring = sfb; T.valuestring = stb;
    if (kf == cJSON_Object) for (i = 0; i < nf; i++) for (j = i + 1; j < nf; j++) VF_ASSUME(IN.keyf[i] != IN.keyf[j]);
    if (kt == cJSON_Object) for (i = 0; i < nt; i++) for (j = i + 1; j < nt; j++) VF_ASSUME(IN.keyt[i] != IN.keyt[j]);
    build(&F, cf, nf, IN.keyf, kfb); build(&T, ct, nt, IN.keyt, ktb);
    /* the path prefix handed in by the caller is a concrete representative ("/p"): the function only copies it */
    pathb[0] = '/'; pathb[1] = 'p'; pathb[2] = 0;

    create_patches__real(&patches_dummy, (const unsigned char *)pathb, &F, &T, 1);

    if (kf != kt) { expected = 1; VF_AP(17, count_rec(1, "replace", pathb, 0, "", &T, 0, 0) == 1, "C17 different kinds: one replace of the whole value"); }
    else if (kf == cJSON_Number) { int same = IN.vf == IN.vt && fabs(IN.df - IN.dt) <= (fabs(IN.df) > fabs(IN.dt) ? fabs(IN.df) : fabs(IN.dt)) * DBL_EPSILON && fabs(IN.df) <= DBL_MAX && fabs(IN.dt) <= DBL_MAX;
        if (fabs(IN.df) <= DBL_MAX && fabs(IN.dt) <= DBL_MAX) { expected = same ? 0 : 1; if (!same) VF_AP(17, count_rec(1, "replace", pathb, 0, "", &T, 0, 0) == 1, "C17 different numbers: one replace"); } else expected = nrec; }
    else if (kf == cJSON_String) { expected = IN.sf == IN.st ? 0 : 1; if (IN.sf != IN.st) VF_AP(17, count_rec(1, "replace", pathb, 0, "", &T, 0, 0) == 1, "C17 different strings: one replace"); }
    else if (kf == cJSON_Array) {
        unsigned m = nf < nt ? nf : nt;
        for (i = 0; i < m; i++) { size_t o = strlen(pathb); memcpy(p2, pathb, o); p2[o] = '/'; p2[o + 1] = (char)('0' + i); p2[o + 2] = 0; VF_AP(17, count_rec(2, "", p2, 0, "", 0, &cf[i], &ct[i]) == 1, "C17 arrays: common prefix is diffed element by element at path/index"); }
        idx[0] = (char)('0' + m); idx[1] = 0;
        if (nf > m) VF_AP(17, count_rec(1, "remove", pathb, 1, idx, 0, 0, 0) == nf - m, "C17 arrays: every surplus source element is removed at the index just behind the common prefix");
        for (j = m; j < nt; j++) VF_AP(17, count_rec(1, "add", pathb, 1, "-", &ct[j], 0, 0) == 1, "C17 arrays: every surplus target element is appended");
        expected = m + (nf - m) + (nt - m);
        /* order matters for arrays: prefix diffs, then removes, then adds in target order */
        for (i = 0; i < nrec && i < expected; i++) { int want = i < m ? 2 : 1; VF_AP(17, rec[i].kind == want, "C17 arrays: operations come in an order that evaluates correctly"); }
        for (j = m; j < nt; j++) if (m + (nf - m) + (j - m) < NREC) VF_AP(17, rec[m + (nf - m) + (j - m)].value == &ct[j], "C17 arrays: appended in target order");
    }
    else if (kf == cJSON_Object) {
        for (i = 0; i < nf; i++) { int common = -1; for (j = 0; j < nt; j++) if (IN.keyf[i] == IN.keyt[j]) common = (int)j;
            if (common >= 0) { esc(p2, pathb, IN.keyf[i]); VF_AP(17, count_rec(2, "", p2, 0, "", 0, &cf[i], &ct[common]) == 1, "C17 objects: common keys are diffed at path/escaped-key"); expected++; }
            else { VF_AP(17, count_rec(1, "remove", pathb, 1, kfb[i], 0, 0, 0) == 1, "C17 objects: source-only members are removed"); expected++; } }
        for (j = 0; j < nt; j++) { int common = 0; for (i = 0; i < nf; i++) if (IN.keyf[i] == IN.keyt[j]) common = 1;
            if (!common) { VF_AP(17, count_rec(1, "add", pathb, 1, ktb[j], &ct[j], 0, 0) == 1, "C17 objects: target-only members are added with their value"); expected++; } }
    }
    else expected = 0;
    VF_AP(17, nrec == expected, "C17 no other operation is generated (equal values give an empty patch)");
    check_wf(&F, cf, nf); check_wf(&T, ct, nt);
    VF_AP(17, vf_live == 0, "C17 generation releases its temporaries");
    VF_WITNESS("end");
    return 0;
}
