/* compare_json (used by the JSON Patch "test" operation and by merge-patch generation): two containers of the same or different
 * kind with <= K scalar children each (keys 1 symbolic byte, distinct per object; scalar kinds and payloads symbolic).
 * Real code: compare_json incl. its recursive calls on the children, sort_object/sort_list, compare_strings, compare_double.
 * Spec: true iff same kind and - arrays: same length, pairwise equal in order; objects: same key set, equal values per key (any order).
 * Afterwards both arguments are well-formed containers with the same member nodes (C19: utilities that sort internally). */
#ifndef K
#define K 2
#endif
#define VF_INPUTS(X) X(double, numa, ) X(double, numb, ) X(unsigned char, ka, ) X(unsigned char, kb, ) X(unsigned char, na, ) X(unsigned char, nb, ) X(unsigned char, keya, [K]) X(unsigned char, keyb, [K]) \
    X(unsigned char, kinda, [K]) X(unsigned char, kindb, [K]) X(int, va, [K]) X(int, vb, [K]) X(unsigned char, sa, [K]) X(unsigned char, sb, [K]) X(unsigned char, fl, [2])
#include "vf.h"
#include "vf_str.h"
#ifndef VF_LIB
#define VF_LIB "cJSON_Utils.c"
#endif
#include VF_LIB

static cJSON A, B, ca[K], cb[K]; static char keysa[K][2], keysb[K][2], stra[K][2], strb[K][2]; static unsigned na, nb;
static int skind(unsigned char k) { switch (k % 5) { case 0: return cJSON_NULL; case 1: return cJSON_False; case 2: return cJSON_True; case 3: return cJSON_Number; default: return cJSON_String; } }
static int ckind(unsigned char k) { return (k % 3 == 0) ? cJSON_Array : (k % 3 == 1) ? cJSON_Object : cJSON_Number; }
static int val_eq(unsigned i, unsigned j);
/* recursive call of compare_json on two children: oracle = equality of the scalar payloads (induction hypothesis) */
static int bad_call;
static cJSON_bool compare_json(cJSON *a, cJSON *b, const cJSON_bool case_sensitive)
{
    unsigned i, j;
    if (!case_sensitive) bad_call = 1;
    for (i = 0; i < K; i++) for (j = 0; j < K; j++) if (i < na && j < nb && a == &ca[i] && b == &cb[j]) return val_eq(i, j);
    bad_call = 1; return 0;
}
static int val_eq(unsigned i, unsigned j)
{
    int x = skind(IN.kinda[i]), y = skind(IN.kindb[j]);
    if (x != y) return 0;
    if (x == cJSON_Number) return IN.va[i] == IN.vb[j];
    if (x == cJSON_String) return IN.sa[i] == IN.sb[j];
    return 1;
}
static void build(cJSON *root, cJSON *kids, unsigned cnt, int kind, const unsigned char *keys, char (*keybuf)[2], const unsigned char *kinds, const int *vals, const unsigned char *strs, char (*strbuf)[2])
{
    unsigned i;
    memset(root, 0, sizeof *root); root->type = kind;
    for (i = 0; i < cnt; i++) {
        memset(&kids[i], 0, sizeof kids[i]);
        kids[i].type = skind(kinds[i]); kids[i].valueint = vals[i]; kids[i].valuedouble = (double)vals[i];
        memcpy(strbuf[i], &strs[i], 1); strbuf[i][1] = 0; kids[i].valuestring = strbuf[i];
        memcpy(keybuf[i], &keys[i], 1); keybuf[i][1] = 0; kids[i].string = keybuf[i];
        if (i) { kids[i - 1].next = &kids[i]; kids[i].prev = &kids[i - 1]; }
    }
    if (cnt) { root->child = &kids[0]; kids[0].prev = &kids[cnt - 1]; }
}
static void check_wf(const cJSON *root, const cJSON *kids, unsigned cnt)
{
    const cJSON *c, *last = 0; unsigned g = 0, i;
    for (c = root->child; c != 0 && g <= K; c = c->next, g++) { if (g) VF_AP(19, c->prev == last, "C19 after a sorting utility call: backward links mirror forward links"); last = c; }
    VF_AP(19, g == cnt && c == 0, "C19 after a sorting utility call: the container keeps exactly its members");
    if (cnt) VF_AP(19, root->child->prev == last, "C19 after a sorting utility call: the first member's backward link designates the last member");
    for (i = 0; i < cnt; i++) { unsigned seen = 0; g = 0; for (c = root->child; c != 0 && g <= K; c = c->next, g++) if (c == &kids[i]) seen++; VF_AP(19, seen == 1, "C19 after a sorting utility call: same member nodes"); }
}

#define VF_FL(b) ((((b) & 2) ? cJSON_StringIsConst : 0) | (((b) & 4) ? cJSON_IsReference : 0))   /* ownership flag bits: they never change what a node means */
static int sat(double d) { return d >= INT_MAX ? INT_MAX : d <= (double)INT_MIN ? INT_MIN : (int)d; }
int main(VF_MAIN_ARGS)
{
    unsigned i, j; int r, spec, ka, kb;
    VF_INIT();
#ifdef NUMMODE
    {   /* the number case on its own: every pair of finite doubles with their saturated integer views */
        double p = IN.numa, q = IN.numb, m;
        VF_ASSUME(fabs(p) <= DBL_MAX && fabs(q) <= DBL_MAX);
        memset(&A, 0, sizeof A); memset(&B, 0, sizeof B);
        A.type = cJSON_Number; B.type = cJSON_Number; A.valuedouble = p; B.valuedouble = q; A.valueint = sat(p); B.valueint = sat(q);
        r = compare_json__real(&A, &B, 1);
        m = fabs(p) > fabs(q) ? fabs(p) : fabs(q);
        spec = sat(p) == sat(q) && fabs(p - q) <= m * DBL_EPSILON;
        VF_AP(16, (r != 0) == (spec != 0), "C16 numbers compare equal iff their integer views agree and the doubles are equal within relative DBL_EPSILON");
        VF_AP(18, (r != 0) == (spec != 0), "C18 numbers compare equal iff their integer views agree and the doubles are equal within relative DBL_EPSILON");
        VF_AP(17, (r != 0) == (spec != 0), "C17 numbers compare equal iff their integer views agree and the doubles are equal within relative DBL_EPSILON");
        VF_WITNESS("number");
        return 0;
    }
#endif
    na = IN.na % (K + 1); nb = IN.nb % (K + 1);
    ka = ckind(IN.ka); kb = ckind(IN.kb);
    if (ka == cJSON_Number) na = 0; if (kb == cJSON_Number) nb = 0;
    for (i = 0; i < K; i++) { VF_ASSUME(IN.va[i] > -1000 && IN.va[i] < 1000 && IN.vb[i] > -1000 && IN.vb[i] < 1000); }
    if (ka == cJSON_Object) for (i = 0; i < na; i++) for (j = i + 1; j < na; j++) VF_ASSUME(IN.keya[i] != IN.keya[j]);
    if (kb == cJSON_Object) for (i = 0; i < nb; i++) for (j = i + 1; j < nb; j++) VF_ASSUME(IN.keyb[i] != IN.keyb[j]);
    build(&A, ca, na, ka, IN.keya, keysa, IN.kinda, IN.va, IN.sa, stra);
    build(&B, cb, nb, kb, IN.keyb, keysb, IN.kindb, IN.vb, IN.sb, strb);
    A.valueint = 1; A.valuedouble = 1; B.valueint = 1; B.valuedouble = 1;
    A.type |= VF_FL(IN.fl[0]); B.type |= VF_FL(IN.fl[1]);

    r = compare_json__real(&A, &B, 1);
    VF_AP(16, !bad_call, "C16 comparison pairs a child of a with a child of b");

    if (ka != kb) spec = 0;
    else if (ka == cJSON_Number) spec = 1;
    else if (ka == cJSON_Array) { spec = (na == nb); for (i = 0; i < na && i < nb; i++) if (!val_eq(i, i)) spec = 0; }
    else { spec = (na == nb); for (i = 0; i < na; i++) { int f = 0; for (j = 0; j < nb; j++) if (IN.keya[i] == IN.keyb[j] && val_eq(i, j)) f = 1; if (!f) spec = 0; } }
    VF_AP(16, (r != 0) == (spec != 0), "C16 the test operation's comparison is true exactly for equal JSON values (objects as key/value sets)");
    VF_AP(18, (r != 0) == (spec != 0), "C18 merge-patch generation's comparison is true exactly for equal JSON values");
    check_wf(&A, ca, na); check_wf(&B, cb, nb);
    for (i = 0; i < na; i++) VF_AP(17, ca[i].type == skind(IN.kinda[i]) && ca[i].valueint == IN.va[i] && ca[i].string == keysa[i], "C17 comparison leaves member values and keys untouched");
    VF_WITNESS("end");
    return 0;
}
